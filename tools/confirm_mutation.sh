#!/bin/bash
# usage: tools/confirm_mutation.sh <ID> <A|B>
# In the scratch worktree /tmp/mut/<ID>: apply the patch, run the demo (must fail), run the existing suite (must pass),
# revert, run the demo again (must pass). Writes MUTATION/<m>/confirm.txt.
set -u
id="$1"; m="$2"
wt=${MUTROOT:-/tmp/mut}/$id
d=$wt/MUTATION/$m
cd $wt || exit 9
git checkout -q -- . 2>/dev/null
demo_path=$(python3 -c "import json;print(json.load(open('$d/meta.json'))['demo_path'])")
demo_cmd=$(python3 -c "import json;print(json.load(open('$d/meta.json'))['demo_cmd'])")
mkdir -p "$(dirname $demo_path)"; cp $d/demo.rs $demo_path
export CARGO_NET_OFFLINE=true
{
echo "demo_path=$demo_path"; echo "demo_cmd=$demo_cmd"
git apply $d/patch.diff && echo "patch applied" || { echo "PATCH DOES NOT APPLY"; exit 9; }
( cd $wt && timeout 900 bash -c "$demo_cmd" ) > $d/demo_with.log 2>&1; echo "demo_with_patch_exit=$?"
( cd $wt && timeout 1500 cargo test --workspace --no-fail-fast --offline ) > $d/suite_with.log 2>&1; echo "suite_with_patch_exit=$?"
grep -E "^test result" $d/suite_with.log | head -6
git apply -R $d/patch.diff && echo "patch reverted"
( cd $wt && timeout 900 bash -c "$demo_cmd" ) > $d/demo_without.log 2>&1; echo "demo_without_patch_exit=$?"
} > $d/confirm.txt 2>&1
python3 -c "import os,sys; p=os.path.join(sys.argv[1], sys.argv[2]); os.path.isfile(p) and p.startswith(chr(47)+'tmp'+chr(47)+'mut') and os.remove(p)" "$wt" "$demo_path"
cat $d/confirm.txt
