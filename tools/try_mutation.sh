#!/bin/bash
# usage: tools/try_mutation.sh <patch.diff> <ID> [<ID>...]   -- applies patch to /repo, runs quick checks, reverts
set -u
patch="$1"; shift
cd /repo && git apply "$patch" || { echo "APPLY FAILED"; exit 9; }
cd /verif
for id in "$@"; do
  out=$(./check "$id" --tier quick --seed ${SEED:-11} 2>&1)
  code=$?
  echo "== $id exit=$code :: $(echo "$out" | grep -E "quick:|BUILD-FAILED" | tail -1)"
  echo "$out" | grep -E "signature=" | sort | uniq -c | sort -rn | head -4
done
git -C /repo apply -R "$patch" || echo "REVERT FAILED"
git -C /repo status --short | head -3
./check --build >/dev/null 2>&1
