#!/bin/bash
# usage: tools/try_mutation.sh <patch.diff> <ID> [<ID>...]   -- applies patch to $REPO (default /repo), runs quick checks, reverts
# (run it from a snapshot of /verif whose harness/Cargo.toml points at $REPO to stay clear of work in /repo)
set -u
patch="$1"; shift
here="$(cd "$(dirname "$0")/.." && pwd)"
REPO=${REPO:-/repo}
git -C "$REPO" apply "$patch" || { echo "APPLY FAILED"; exit 9; }
cd "$here"
for id in "$@"; do
  out=$(./check "$id" --tier quick --seed ${SEED:-11} 2>&1)
  code=$?
  echo "== $id exit=$code :: $(echo "$out" | grep -E "quick:|BUILD-FAILED" | tail -1)"
  echo "$out" | grep -E "signature=" | sort | uniq -c | sort -rn | head -4
done
git -C "$REPO" apply -R "$patch" || echo "REVERT FAILED"
git -C "$REPO" status --short | head -3
[ "${NOREBUILD:-}" = 1 ] || ./check --build >/dev/null 2>&1
