#!/usr/bin/env python3
"""Regenerates the tables of DESIGN.md §8 that are derived from files: kept mutations and findings."""
import json, glob, os, re
root = os.path.dirname(os.path.dirname(os.path.abspath(__file__)))

def esc(t):
    return t.replace('|', '\\|').replace('\n', ' ')

rows = ["| id | file(s) changed | change (abridged) | result against the checks |", "|---|---|---|---|"]
for d in sorted(glob.glob(root + '/seeded/*')):
    m = json.load(open(d + '/meta.json'))
    files = ', '.join(f.replace('remoc/src/', '').replace('remoc_macro/src/', 'macro:') for f in m.get('files_changed', []))
    what = m.get('what_changed', '')
    what = what[:240] + ('…' if len(what) > 240 else '')
    res = str(m.get('checks_run_against_it', ''))
    rows.append(f"| {os.path.basename(d)} | {esc(files)} | {esc(what)} | {esc(res)} |")
seeded = '\n'.join(rows)

k = json.load(open(root + '/known_findings.json'))
rows = ["| property | status | signature | what |", "|---|---|---|---|"]
for f in k['findings']:
    st = f['status'] + (' ' + f.get('commit', '') if f['status'] == 'fixed' else '')
    rows.append(f"| {f['property']} | {st} | `{f['signature']}` | {esc(f['what'])} |")
findings = '\n'.join(rows)

p = root + '/DESIGN.md'
s = open(p).read()
for name, body in [('seeded-table', seeded), ('findings-table', findings)]:
    s = re.sub(rf'<!-- BEGIN {name} -->.*?<!-- END {name} -->', lambda _m: f'<!-- BEGIN {name} -->\n{body}\n<!-- END {name} -->', s, flags=re.S)
open(p, 'w').write(s)
print('tables written')
