#!/usr/bin/env python3
"""Generates /verif/MANIFEST.json from the table below (only properties whose check exists are claimed)."""
import json, subprocess, os

VERIF = os.path.dirname(os.path.dirname(os.path.abspath(__file__)))

def hook_commits():
    out = subprocess.run(["git", "-C", "/repo", "log", "--format=%H %s"], capture_output=True, text=True).stdout
    return [l.split()[0] for l in out.splitlines() if "verif hook" in l]

# id -> (category, technique, level text, level note, design ref, engine)
CHECKS = {
 "C01": ("exploration", "runtime monitoring: history oracle (exactly-once/in-order/byte-exact vs completed sends) over seeded hostile workloads + online wire monitor",
         "Held on N seeded executions of the real chmux endpoints over a harness-owned transport: every received message sequence is compared byte-for-byte with the completed sends of its port (prefix while running, equality at end-of-stream), under random Cfg pairs, chunked/whole/try sends, cancellations at random poll indices, network delays and task-poll deferral. Sampling, not proof.",
         "trusts: tokio runtime, the harness transport (ordered, reliable), the harness oracle; schedules limited to those simnet + H1 + seeded select produce", "DESIGN.md §3 C01", "simnet+wiremon+history"),
 "C02": ("exploration", "runtime monitoring: online wire monitor (independent decoder) checking credit/chunk invariants at every frame of every execution",
         "Held at every prefix of the wire trace of N seeded executions: outstanding cost <= advertised receive buffer (credits counted only once handed to the sender), payload <= advertised chunk size, credits granted <= cost handed to the granter; dedicated runs fill the window completely (ratio 1.0 must be reached) with starved credit frames, idle receivers, port batches, empty messages and cancelled histories.",
         "trusts: the reference decoder's statement of the wire format; the harness's knowledge of delivery times (it owns the transport)", "DESIGN.md §3 C02", "simnet+wiremon"),
 "C03": ("exploration", "runtime monitoring: pending-operation oracle at virtual-time quiescence of a healthy drained transport + zero-progress frame counter",
         "Held on N seeded executions: at quiescence (paused clock, all frames released, every receiver consuming) no send/connect is left pending, after histories of cancelled sends (random poll indices, cancel-at-quiescence behind a stalled transport), try_send on full queues, connect(k ports) with left-over credits, another port's receiver idle, and receive calls dropped after a few polls while the receiving endpoint's own event queue is full (credit returns waiting for queue space); no operation emitted a PortData frame without ports.",
         "bounded liveness only: 'eventually' is restated as 'by quiescence'; starvation needing more virtual time than a run is not reached", "DESIGN.md §3 C03", "simnet+wiremon+quiescence"),
 "C09": ("exploration", "runtime monitoring: differential conversation between a real endpoint and an independent reference codec (harness as v2/v3 peer), complete (direction x kind x flags x version) cell coverage",
         "Held on N scripted conversations in which the harness speaks reference-encoded bytes as a version-2 or version-3 peer: every frame the real endpoint emitted decoded strictly and matched what the triggering API action implies, every reference-encoded frame was understood as intended, ids were sent to v3 peers only, length-prefixed framing held over a fragmenting byte pipe, and two real endpoints with different chunk sizes exchanged values above both chunk sizes over Connect::io; all 108 (direction, kind, flag set, peer version) cells must be observed or the check fails as broken.",
         "trusts: harness/src/refcodec.rs as the frozen statement of the published layout (written from the documentation, not from remoc's encoder)", "DESIGN.md §3 C09", "refcodec+peer"),
 "C06": ("fault_enumeration", "runtime monitoring: exhaustive fault injection (every frame index x direction x fault kind x drop visibility of a recorded workload) on a harness-owned transport, pending-operation registry judged at virtual-time quiescence",
         "Every (direction, frame index, fault kind, visibility) tuple of the recorded workload was executed: (fault kinds: sink error, stream error, end of stream, black hole both ways / one way, writer stalled for ever = back-pressure; odd positions over a transport that buffers until flush) the directly observing dispatcher terminated at the next quiescence, all dispatchers and all tracked API futures completed within 3x(T_A+T_B) virtual seconds, error classes were transport classes, received data stayed a prefix; idle healthy connections (plain and buffering transport, symmetric and asymmetric timeouts) survived 1000 timeouts. Exhaustive for the fault space of this workload only.",
         "fault positions of other workloads are not reached; 'bounded time' = virtual time on tokio's paused clock", "DESIGN.md §3 C06", "simnet fault enumerator"),
 "C07": ("exploration", "runtime monitoring: shutdown oracle at quiescence (dispatcher results, H1 live-task counter, port allocator probe, wire monitor W6) over seeded drop orders; heap/task plateau over open-close cycles",
         "Held on N seeded executions: after dropping every sender/receiver/connect/request/client/listener of both endpoints in random order (interleaved with network delays, deferral of the drop-notification tasks, bursts of concurrent connects above the peer's connect_queue, cancelled accepts under transport back-pressure) both dispatchers returned Ok(()) with the transport open, no internal task survived, all max_ports numbers were allocatable, no port number was reused while open; 500 (quick) / 5000 (thorough) open-transfer-close cycles left heap and task count flat.",
         "internal tasks counted by hook H1; heap by the harness's counting allocator; sampling of drop orders", "DESIGN.md §3 C07", "simnet+wiremon+H1 counter"),
 "C10": ("exploration", "runtime monitoring: outcome-table oracle and tag echo over accepted pairs for seeded concurrent connect/accept/reject/drop/cancel histories; wire monitor W5/W6; sent-ordering probe",
         "Held on N seeded executions: each tagged port-open request resolved by quiescence with the class the listener's recorded action implies, accepted pairs echoed the right tags on both sides, no request was seen twice, exhaustion errors were truthful, unanswered OpenPort never exceeded the advertised queue, a request reported as sent was visible to the listener before later data arrived, and under local port exhaustion (all ports open, waiting connects, some of them dropped) every freed port resumed one waiting connect.",
         "the configured default Cfg::ports_exhausted is read by no code path of this tree; requests are judged by the wait flag they ran with", "DESIGN.md §3 C10", "simnet+wiremon+history"),
 "C08": ("exploration", "runtime monitoring: grammar-based hostile-peer fuzzing (harness speaks the protocol) with panic hook, pending-operation registry, echo probe and counting-allocator memory oracle",
         "Held on N generated frame sequences (valid prefix + 1-6 hostile steps of 30 kinds, hostile handshakes, hostile stream length prefixes): no panic, every local user saw an error by quiescence whenever the dispatcher terminated, surviving endpoints still served a fresh open+echo, emitted frames stayed decodable, and heap growth between N and 4N flood frames of six classes stayed constant-bounded - except the recorded known finding (zero-port PortData).",
         "peer keeps reading; heap measured at quiescence by a counting allocator; sampling of frame sequences, not all sequences", "DESIGN.md §3 C08", "peer+refcodec+mem"),
 "C04": ("exploration", "runtime monitoring: per-sender history oracle (unique ids, self-describing payloads) over seeded typed-channel workloads with failing/cancelled items, buffered and streamed",
         "Held on N seeded channel histories over base, mpsc (either half remote, 1-3 senders), lr and oneshot channels: received values were intact, ordered, duplicate-free prefixes of each sender's successful sends (equality at a clean end), failed and cancelled items were never delivered, item failures stayed non-final on base/lr, nothing was pending at quiescence, also with receive calls dropped and retried while the receiver's event queue was under back-pressure; sizes straddle max_data_size (helper-thread streaming), chunk size and both max_item_size limits.",
         "encoded size approximated as payload + <48 bytes; mpsc channels may end at an item failure (documented); real helper threads are involved - a stuck run is decided by OS-level quiescence", "DESIGN.md §3 C04", "rig+history"),
 "C13": ("exploration", "runtime monitoring: model-free differential oracle (mirror and hand-applied event stream vs the observable's own contents) over seeded operation sequences of the whole mutating API",
         "Held on N seeded (collection, operation sequence, subscription point, mode, locality) cases for all five collection types: at quiescence the mirror (local, remote, re-subscribed = mirror of a mirror), an independent event applier and a second applier fed by an incremental subscription whose first receive calls were dropped all equalled the collection, with correct done/complete flags - except the recorded known finding (values mutated inside hash_map retain).",
         "ground truth is the observable's own Deref contents; sampling of sequences", "DESIGN.md §3 C13", "history/differential"),
 "C14": ("exploration", "runtime monitoring: prefix-state membership oracle against a never-lagging reference subscription, error-class table, list exactly-once oracle; lag, early drop, size limit and transport cuts injected",
         "Held on N seeded cases: a mirror that answered Ok at a quiescent checkpoint always presented the current state of the event history; lag, early drop of the collection, an exceeded size limit (through every growing event or the snapshot) and a cut connection were reported with the fitting error and kept being reported; detach() returned a state of the history; list subscribers (1-4, joining any time, slow, local/remote) received every element exactly once in order.",
         "judged at quiescence only; non-applying crafted events are not driven (not reached)", "DESIGN.md §3 C14", "history/differential"),
 "C15": ("exploration", "runtime monitoring: monotone-with-skips and convergence-at-quiescence oracle over recorded observations of every watch receiver",
         "Held on N seeded runs: every receiver (local, transferred over 1-2 connections while updates were in flight, subscribed late, sender half remote) observed only sent values in non-decreasing order through each observation API, and at quiescence held the last value sent, including one sent immediately before the sender was dropped; values the receiving endpoint could not decode were reported as item errors without ending the channel.",
         "increasing integer values; eventual observation restated as 'by quiescence of the healthy connection'", "DESIGN.md §3 C15", "rig+history"),
 "C16": ("exploration", "runtime monitoring: lag-marker grammar oracle over each broadcast subscriber's recorded Ok/Lagged/Closed sequence",
         "Held on N seeded runs with send/receive buffers 1-4, slow, idle, late and remote subscribers: strictly increasing values, every gap marked by a Lagged error exactly there, no spurious Lagged, draining subscribers saw everything, and every reading subscriber reached the end of the broadcast by quiescence although others never read.",
         "consecutive integer values; 'never block or delay' restated as completion by quiescence", "DESIGN.md §3 C16", "rig+history"),
 "C11": ("exploration", "runtime monitoring: sequence and classification oracle over recorded send/recv/closed histories with the close/drop event enumerated over every stream position",
         "Every (channel kind, event, stream length, position) tuple for ports, forwarded port pairs, base, lr and mpsc (1-3 senders) was executed under several seeded schedules: sender drop => everything sent then end-of-stream; receiver close => every completed send delivered, end-of-stream, later sends refused and classified as graceful; receiver drop => refused and classified as dropped; closed() futures resolved; mpsc Sending results formed Ok..Ok Err..Err with every Ok delivered.",
         "positions are enumerated completely for lengths 1,2,4,8; schedules are sampled; kinds: port, port pair through a forwarding endpoint (bin channel with both halves sent away), base, lr, mpsc (1-3 senders); oneshot is covered in C04; a drop of the final receiver behind a forwarder is seen as a graceful close by the original sender (recorded, not judged)", "DESIGN.md §3 C11", "rig+history"),
 "C05": ("exploration", "runtime monitoring: label-matrix oracle (value = label*1000+direction must arrive through the counterpart with the same label) over generated value shapes with many channel halves, 1-3 hops",
         "Held on N generated value journeys (nested lists/options/pairs/maps/variants with 0-12 halves of 11 kinds, re-sent over up to 3 connections, tiny credit configurations in 25%, mpsc receivers handed over with queued items and optionally closed first): every received half was wired to exactly its original counterpart (the diagonal of the label matrix), no half was lost, duplicated, cross-wired or left hanging at quiescence; doubly sent single-connection channels produced data or errors, never a hang.",
         "port exhaustion with wait=true is a wait by design and is not driven; lr halves travel one hop only (documented)", "DESIGN.md §3 C05", "rig+history"),
 "C17": ("exploration", "runtime monitoring: interval-exclusion, no-stale-read and pending-at-quiescence oracles over lock histories recorded on a global logical clock under virtual time",
         "Held on N seeded concurrent histories (owner + local clones + clones on a second endpoint with own or shared cache, guard hold times, commits, dropped write guards, commits of values that cannot be transmitted, abandoned requests): write guards never overlapped any other guard, values never changed under a read guard, every read returned the initial or a committed value that was not stale, no uncommitted value became visible, the final value was the last commit, and nothing was pending at quiescence once all guards were released.",
         "single-thread virtual-time leg; logical clock at the client boundary; requesters that give up (dropped request futures) are driven, loss of a lock holder's connection is not", "DESIGN.md §3 C17", "rig+history"),
 "C12": ("exploration", "runtime monitoring: execution-log and id-echo oracle plus an exact linearizability check (unique-bit updates: chain + real-time order) over recorded call histories",
         "Held on N seeded histories of concurrent clients (local clones and clones on a second endpoint; calls left alone un-polled while the same task completes another call) against ServerRefMut and ServerSharedMut (spawn off/on): every returned result belonged to its own caller and to exactly one execution, call errors to at most one, the returned values were explained by a sequential order of the mutations respecting real-time order although the &mut method suspends between its read and its write, and acknowledged updates were in the final value.",
         "virtual-time single-thread leg; every fourth run drives RFn/RFnMut/RFnOnce (unsendable arguments, dropped providers, abandoned calls, connection cuts); connection faults during rtc calls are driven in C19", "DESIGN.md §3 C12 and §8", "rig+history"),
 "C19": ("exploration", "runtime monitoring: execution-log oracle (checkpoints after quiescence and after the caller's drop), served-afterwards probe, failing-call table and watchdog livelock classification over histories with abandoned calls, large replies and cut connections",
         "Held on N seeded histories in which 40% of the calls were abandoned after 0-7 polls and calls to an unknown method / with an oversize reply were injected from a newer-trait client: abandoned cancellable calls stopped at their next suspension point, abandoned #[no_cancel] mutations completed, a fresh &mut call was served afterwards, unknown-method calls failed only themselves, calls with 300-60000 byte replies abandoned mid-transmission and a client whose connection was cut during large replies left the server serving - except the recorded known finding (an oversize reply ends serve()).",
         "requests above the client's own request limit are documented to fail that client and are not judged; undecodable requests other than unknown methods are not driven", "DESIGN.md §3 C19", "rig+history"),
 "C18": ("exploration", "runtime monitoring: byte-prefix, agreed-size and verdict oracle over write/flush/shutdown/read histories recorded at the AsyncWrite/AsyncRead boundary of rch::io channels",
         "Held on N seeded streams (sized/unsized; lengths around chunk_size and receive_buffer; sender moved, receiver moved, both moved over different connections, sender moved in the middle of the stream; scripted write/flush/read sizes incl. empty and cancelled calls; shutdown, flush+drop, drop, short and over-long endings; connection cut at a random frame in 25%): bytes read were a prefix of bytes accepted, EOF was successful only at the agreed size, over-long writes were refused, short shutdowns failed, unfinished streams ended in errors, complete ones in EOF, nothing was pending at quiescence.",
         "bytes of the last unflushed write are not judged (lower bound 'flushed'); all-local placement is not a supported use of rch::bin; max_data_size >= chunk_size on every endpoint", "DESIGN.md §3 C18 and §8", "rig+history"),
 "C20": ("exploration", "runtime monitoring: self-identifying values with destruction counters (handles) and byte-equality oracle (lazy values/blobs) over random journeys through 2-4 endpoints with connection cuts during fetches",
         "Held on N seeded journeys: handle accesses succeeded only on the creating endpoint, at the original type, before into_inner, and yielded exactly their own value; every access elsewhere, through a cast or after the take was an error; values were destroyed exactly once after all handles (or provider plus home handles) were gone and never earlier; Lazy/LazyBlob fetched after 1-4 forwards equalled what was provided, failed after the provider was dropped, and across a cut connection were errors or the exact value, never a prefix.",
         "whether a handle returning over a different connection or as a second remote clone resolves is recorded, not judged", "DESIGN.md §3 C20 and §8", "rig+history"),
}

NOT_YET = "check not yet implemented in this commit (DESIGN.md §6a gives the order of implementation)"

def main():
    ids = ["C%02d" % i for i in range(1, 21)]
    checks = []
    for i in ids:
        if i in CHECKS:
            cat, tech, text, note, ref, eng = CHECKS[i]
            checks.append({
                "property_id": i,
                "quick_cmd": f"./check {i} --tier quick",
                "thorough_cmd": f"./check {i} --tier thorough",
                "evidence_file": f"/verif/evidence/{i}.json",
                "replay_cmd_template": f"./check {i} --replay {{path}}",
                "engine": eng,
                "level_claimed": {"category": cat, "text": text, "design_ref": ref},
                "level_note": note,
                "technique": tech,
            })
    m = {
        "version": 1,
        "setup_cmd": "./check --build",
        "hooks": {
            "guard": "cargo feature `verif-hooks` of the remoc crate (off by default)",
            "enable": "the harness crate /verif/harness path-depends on /repo/remoc with features=[\"verif-hooks\"]; built by ./check (cargo build --release --offline, RUSTFLAGS --cfg tokio_unstable via harness/.cargo/config.toml)",
            "baseline_off_cmd": "cd /repo && cargo test --workspace --no-fail-fast --offline",
            "source_commits": hook_commits(),
            "add_only": True,
        },
        "engines": [
            {"name": "simnet+wiremon", "path": "harness/src/simnet.rs harness/src/wiremon.rs harness/src/refcodec.rs",
             "serves_properties": ["C01", "C02", "C03", "C05", "C06", "C07", "C08", "C09", "C10"],
             "kind_free_text": "harness-owned transport with delivery scheduler and fault injector; online wire-invariant monitor with an independent reference decoder"},
            {"name": "history oracles", "path": "harness/src/props/",
             "serves_properties": ["C01", "C04", "C11", "C12", "C13", "C14", "C15", "C16", "C17", "C18", "C19", "C20"],
             "kind_free_text": "recorded API histories with unique ids checked by small deterministic oracles"},
            {"name": "virtual clock + H1", "path": "harness/src/clock.rs harness/src/sched.rs /repo/remoc/src/exec/verif.rs",
             "serves_properties": ids,
             "kind_free_text": "tokio current_thread runtime with paused clock (quiescence = observable fact), seeded poll deferral of remoc's internal tasks, CancelAt(n)"},
        ],
        "checks": checks,
        "not_applicable": [{"property_id": i, "reason": NOT_YET} for i in ids if i not in CHECKS],
        "notes": "All checks: runtime monitoring of the real code. Known findings: /verif/known_findings.json. See DESIGN.md.",
    }
    with open(os.path.join(VERIF, "MANIFEST.json"), "w") as f:
        json.dump(m, f, indent=1)
    print("checks:", [c["property_id"] for c in checks])

if __name__ == "__main__":
    main()
