#!/bin/bash
# usage: tools/sweep_seeded.sh [<dir-pattern>]      (REPO=<path of the repository copy to mutate>, default /repo)
# Applies every kept mutation /verif/seeded/<ID>-<m>/patch.diff to $REPO in turn, runs the quick check of <ID>
# (seed ${SEED:-11}), reverts, and prints one line per mutation: caught / MISSED / does-not-apply.
# Run it on a snapshot (vp run --with-repo) or when nothing else uses /repo: it edits $REPO's working tree.
set -u
cd "$(dirname "$0")/.."
REPO=${REPO:-/repo}
pat=${1:-}
out=${OUT:-/dev/stdout}
for d in $(ls -d seeded/*/ | grep -E "${pat:-.}"); do
    name=$(basename "$d")
    id=${name%%-*}
    if ! git -C "$REPO" apply --check "$PWD/$d/patch.diff" 2>/dev/null; then
        echo "$name does-not-apply" | tee -a "$out"
        continue
    fi
    git -C "$REPO" apply "$PWD/$d/patch.diff"
    res=$(./check "$id" --tier quick --seed "${SEED:-11}" 2>&1)
    code=$?
    sig=$(echo "$res" | grep -oE "signature=[^ ]+" | sort | uniq -c | sort -rn | head -3 | awk '{print $2"x"$1}' | tr '\n' ' ')
    git -C "$REPO" apply -R "$PWD/$d/patch.diff" || echo "$name REVERT-FAILED" | tee -a "$out"
    case $code in
        1) echo "$name caught exit=1 $sig" | tee -a "$out" ;;
        0) echo "$name MISSED exit=0" | tee -a "$out" ;;
        *) echo "$name exit=$code $(echo "$res" | tail -1 | cut -c1-160)" | tee -a "$out" ;;
    esac
done
git -C "$REPO" status --short | head -3
