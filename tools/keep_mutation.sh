#!/bin/bash
# usage: tools/keep_mutation.sh <ID> <A|B> "<caught by: ...>"
# copies a confirmed mutation from /tmp/mut/<ID>/MUTATION/<m> to /verif/seeded/<ID>-<m>/
set -u
id="$1"; m="$2"; caught="$3"
src=${MUTROOT:-/tmp/mut}/$id/MUTATION/$m
dst=/verif/seeded/$id-${KEEPAS:-$m}
mkdir -p $dst
cp $src/patch.diff $dst/patch.diff
cp $src/demo.rs $dst/demo.rs
python3 - "$src" "$dst" "$id" "$caught" <<'PY'
import json,sys
src,dst,pid,caught=sys.argv[1:5]
meta=json.load(open(f"{src}/meta.json"))
conf=open(f"{src}/confirm.txt").read()
meta["property"]=pid
meta["confirmed_by_me"]={
  "how":"tools/confirm_mutation.sh in the scratch worktree: apply patch, run demo (must fail), run the existing suite (141 must pass), revert, run demo (must pass)",
  "demo_fails_with_patch": "demo_with_patch_exit=0" not in conf,
  "existing_141_tests_pass_with_patch": "141 passed; 0 failed" in conf,
  "demo_passes_without_patch": "demo_without_patch_exit=0" in conf,
  "log": conf.splitlines(),
}
meta["checks_run_against_it"]=caught
json.dump(meta,open(f"{dst}/meta.json","w"),indent=1)
print(dst, meta["confirmed_by_me"]["demo_fails_with_patch"], meta["confirmed_by_me"]["existing_141_tests_pass_with_patch"], meta["confirmed_by_me"]["demo_passes_without_patch"])
PY
