//! Online wire monitor: invariants W1..W9 evaluated at every prefix of the trace of one connection.
//!
//! It is fed by simnet with (a) every frame at the moment the writer put it on the transport and (b) the
//! moment each frame was handed to the reader. All checks only use what an endpoint can possibly know:
//! credits count for a sender once the credit frame was *handed to it*; data counts as consumable once it
//! was *handed to* the receiver; a finish notification frees a port at the peer only once it was handed over.

use std::collections::{BTreeSet, HashMap};

use crate::{
    refcodec::{self, Msg},
    simnet::Dir,
};

/// What the harness knows about an endpoint's configuration (what it passed as `Cfg`).
#[derive(Clone, Debug)]
pub struct EpCfg {
    pub timeout_ms: u64,
    pub chunk_size: u32,
    pub receive_buffer: u32,
    pub connect_queue: u16,
    pub max_ports: u32,
}

impl EpCfg {
    pub fn from_cfg(cfg: &remoc::chmux::Cfg) -> Self {
        Self {
            timeout_ms: cfg.connection_timeout.map(|d| d.as_millis() as u64).unwrap_or(0),
            chunk_size: cfg.chunk_size,
            receive_buffer: cfg.receive_buffer,
            connect_queue: cfg.connect_queue,
            max_ports: cfg.max_ports,
        }
    }
}

#[derive(Clone, Debug)]
pub struct WireViolation {
    pub code: &'static str,
    pub seq: usize,
    pub detail: String,
}

#[derive(Clone, Copy, PartialEq, Eq, Debug)]
pub enum Mode {
    /// Both endpoints are real remoc endpoints; everything is checked.
    Full,
    /// Only endpoint `0` (A) is real; the other one is the harness speaking arbitrary bytes.
    /// Only W1 (strict decoding, payload pairing) and W8/W9 are checked for A's emissions.
    HostilePeer,
}

#[derive(Default, Clone, Debug)]
struct Side {
    port: u32,
    sent_send_finish: bool,
    sent_recv_finish: bool,
    sent_recv_close: bool,
    got_send_finish: bool,
    got_recv_finish: bool,
    freed: bool,
}

#[derive(Default, Clone, Debug)]
struct Flow {
    sent_cost: u64,
    credits_delivered: u64,
    delivered_cost: u64,
    credits_emitted: u64,
    in_msg: bool,
}

#[derive(Clone, Debug)]
struct Pair {
    sides: [Side; 2],
    /// flow[x]: data sent by endpoint x.
    flow: [Flow; 2],
}

#[derive(Clone, Debug)]
struct Conn {
    client: bool,
    answered: bool,
}

#[derive(Clone, Debug)]
enum Act {
    None,
    Hello { from: usize },
    Data { pair: usize, flow: usize, cost: u64 },
    Credits { pair: usize, flow: usize, credits: u64 },
    SendFinish { pair: usize, to: usize },
    RecvFinish { pair: usize, to: usize },
    Response { requester: usize, client_port: u32, client: bool },
}

#[derive(Default, Clone, Debug)]
pub struct WireStats {
    pub frames: u64,
    pub w2_evals: u64,
    pub w3_evals: u64,
    pub w4_evals: u64,
    pub w5_evals: u64,
    pub w6_evals: u64,
    /// Maximum of outstanding/limit over all W3 evaluations, in 1/1000.
    pub max_w3_ratio_permille: u64,
    pub max_w4_ratio_permille: u64,
    pub max_w5_outstanding: u64,
    pub zero_port_frames: u64,
    pub pings: u64,
    pub pairs: u64,
    pub data_frames: u64,
    pub multi_chunk_msgs: u64,
    pub cancelled_msgs: u64,
}

pub struct WireMon {
    mode: Mode,
    cfg: [EpCfg; 2],
    put_count: [usize; 2],
    hello_version: [Option<u8>; 2],
    hello_delivered_to: [bool; 2],
    goodbye_put: [bool; 2],
    expect_payload: [Option<(usize, usize, bool, bool)>; 2],
    pairs: Vec<Pair>,
    open: [HashMap<u32, usize>; 2],
    connecting: [HashMap<u32, Conn>; 2],
    client_outstanding: [u64; 2],
    acts: Vec<Act>,
    pub violations: Vec<WireViolation>,
    pub stats: WireStats,
    /// (emitting endpoint, kind, flags) cells observed.
    pub cells: BTreeSet<(usize, &'static str, u8)>,
    /// Per-connection zero-port PortData count by emitting endpoint.
    pub zero_port_by: [u64; 2],
    cur_msg_chunks: HashMap<(usize, usize), u32>,
}

fn other(x: usize) -> usize {
    1 - x
}

impl WireMon {
    pub fn new(cfg_a: EpCfg, cfg_b: EpCfg, mode: Mode) -> Self {
        Self {
            mode,
            cfg: [cfg_a, cfg_b],
            put_count: [0, 0],
            hello_version: [None, None],
            hello_delivered_to: [false, false],
            goodbye_put: [false, false],
            expect_payload: [None, None],
            pairs: Vec::new(),
            open: [HashMap::new(), HashMap::new()],
            connecting: [HashMap::new(), HashMap::new()],
            client_outstanding: [0, 0],
            acts: Vec::new(),
            violations: Vec::new(),
            stats: WireStats::default(),
            cells: BTreeSet::new(),
            zero_port_by: [0, 0],
            cur_msg_chunks: HashMap::new(),
        }
    }

    fn viol(&mut self, code: &'static str, seq: usize, detail: String) {
        if self.violations.len() < 50 {
            self.violations.push(WireViolation { code, seq, detail });
        }
    }

    fn set_act(&mut self, seq: usize, act: Act) {
        if self.acts.len() <= seq {
            self.acts.resize(seq + 1, Act::None);
        }
        self.acts[seq] = act;
    }

    fn in_use(&self, x: usize) -> usize {
        let mut n = self.open[x].len();
        for p in self.connecting[x].keys() {
            if !self.open[x].contains_key(p) {
                n += 1;
            }
        }
        n
    }

    /// Credit balance available to endpoint `x` as sender on the pair that contains its local `port`:
    /// (peer buffer − outstanding) as computed from the wire. `None` if the port is unknown.
    pub fn sender_balance(&self, x: usize, local_port: u32) -> Option<i64> {
        let pair = *self.open[x].get(&local_port)?;
        let f = &self.pairs[pair].flow[x];
        let limit = i64::from(self.cfg[other(x)].receive_buffer);
        Some(limit - (f.sent_cost as i64 - f.credits_delivered as i64))
    }

    /// Data cost delivered to the peer of `x` on this pair minus credits the peer emitted back.
    pub fn unreturned_at_receiver(&self, x: usize, local_port: u32) -> Option<i64> {
        let pair = *self.open[x].get(&local_port)?;
        let f = &self.pairs[pair].flow[x];
        Some(f.delivered_cost as i64 - f.credits_emitted as i64)
    }

    /// Credits the peer of `x` has put on the wire for the flow that `x` sends on this pair.
    pub fn credits_emitted_for(&self, x: usize, local_port: u32) -> Option<u64> {
        let pair = *self.open[x].get(&local_port)?;
        Some(self.pairs[pair].flow[x].credits_emitted)
    }

    pub fn open_ports(&self, x: usize) -> usize {
        self.open[x].len()
    }

    fn register_request(&mut self, x: usize, c: u32, client: bool, seq: usize) {
        self.stats.w6_evals += 1;
        if self.open[x].contains_key(&c) {
            self.viol("W6", seq, format!("endpoint {x} requests port {c} which is still open on it"));
        }
        if self.connecting[x].contains_key(&c) {
            self.viol("W6", seq, format!("endpoint {x} requests port {c} which is already connecting"));
        }
        self.connecting[x].insert(c, Conn { client, answered: false });
        let used = self.in_use(x);
        if used as u64 > u64::from(self.cfg[x].max_ports) {
            self.viol("W6", seq, format!("endpoint {x} uses {used} ports > max_ports {}", self.cfg[x].max_ports));
        }
    }

    fn maybe_free(&mut self, pair: usize, x: usize) {
        let s = &mut self.pairs[pair].sides[x];
        if !s.freed && s.sent_send_finish && s.sent_recv_finish && s.got_send_finish && s.got_recv_finish {
            s.freed = true;
            let port = s.port;
            if self.open[x].get(&port) == Some(&pair) {
                self.open[x].remove(&port);
            }
        }
    }

    fn lookup(&mut self, y: usize, port: u32, seq: usize, what: &str) -> Option<usize> {
        match self.open[y].get(&port) {
            Some(p) => Some(*p),
            None => {
                self.viol("W6", seq, format!("{what} names port {port} which is not open on endpoint {y}"));
                None
            }
        }
    }

    /// A frame was put on the transport by the writer of `dir`.
    pub fn on_put(&mut self, dir: Dir, seq: usize, bytes: &[u8]) {
        let x = dir.idx();
        let y = other(x);
        self.set_act(seq, Act::None);
        self.stats.frames += 1;
        let n = self.put_count[x];
        self.put_count[x] += 1;

        if self.mode == Mode::HostilePeer && x == 1 {
            // only the handshake of the harness peer is tracked (so that W8/W9 can be judged for the real endpoint)
            if let Ok(Msg::Hello { version, .. }) = refcodec::decode(bytes) {
                if self.hello_version[1].is_none() {
                    self.hello_version[1] = Some(version);
                    self.set_act(seq, Act::Hello { from: 1 });
                }
            }
            return;
        }

        // Payload frame of a preceding Data message.
        if let Some((pair, flow, first, last)) = self.expect_payload[x].take() {
            let len = bytes.len() as u64;
            let cost = len.max(1);
            self.stats.data_frames += 1;
            if self.mode == Mode::HostilePeer {
                // chunk size check against what the hostile peer announced is done by the scenario
                return;
            }
            self.stats.w2_evals += 1;
            if len > u64::from(self.cfg[y].chunk_size) {
                self.viol("W2", seq, format!("payload of {len} bytes > peer chunk_size {}", self.cfg[y].chunk_size));
            }
            if pair != usize::MAX {
                let limit = u64::from(self.cfg[y].receive_buffer);
                let f = &mut self.pairs[pair].flow[flow];
                f.sent_cost += cost;
                let outstanding = f.sent_cost.saturating_sub(f.credits_delivered);
                let over = f.sent_cost > f.credits_delivered + limit;
                // message framing statistics (W7, informational)
                let key = (pair, flow);
                if first {
                    if f.in_msg {
                        self.stats.cancelled_msgs += 1;
                    }
                    self.cur_msg_chunks.insert(key, 0);
                } else if !f.in_msg {
                    self.violations.push(WireViolation {
                        code: "W7",
                        seq,
                        detail: format!("continuation chunk on pair {pair} flow {flow} without a message start"),
                    });
                }
                let f = &mut self.pairs[pair].flow[flow];
                f.in_msg = !last;
                let c = self.cur_msg_chunks.entry(key).or_insert(0);
                *c += 1;
                if last && *c > 1 {
                    self.stats.multi_chunk_msgs += 1;
                }
                self.stats.w3_evals += 1;
                let ratio = outstanding * 1000 / limit.max(1);
                if ratio > self.stats.max_w3_ratio_permille {
                    self.stats.max_w3_ratio_permille = ratio;
                }
                if over {
                    self.viol(
                        "W3",
                        seq,
                        format!("endpoint {x}: outstanding {outstanding} > peer receive_buffer {limit} on pair {pair}"),
                    );
                }
                self.set_act(seq, Act::Data { pair, flow, cost });
            }
            return;
        }

        let msg = match refcodec::decode(bytes) {
            Ok(m) => m,
            Err(e) => {
                self.viol("W1", seq, format!("endpoint {x} emitted undecodable frame: {e} ({})", crate::simnet::hex(bytes, 32)));
                return;
            }
        };
        self.cells.insert((x, msg.kind(), msg.flags().unwrap_or(0)));

        // W8 handshake.
        match n {
            0 => {
                if msg != Msg::Reset {
                    self.viol("W8", seq, format!("first frame of endpoint {x} is {msg:?}, expected Reset"));
                }
                return;
            }
            1 => {
                match &msg {
                    Msg::Hello { version, cfg } => {
                        self.hello_version[x] = Some(*version);
                        let e = &self.cfg[x];
                        if *version != 3
                            || cfg.timeout_ms != e.timeout_ms
                            || cfg.chunk_size != e.chunk_size
                            || cfg.receive_buffer != e.receive_buffer
                            || cfg.connect_queue != e.connect_queue
                        {
                            self.viol("W8", seq, format!("Hello of endpoint {x} is {msg:?}, configured {e:?}"));
                        }
                        self.set_act(seq, Act::Hello { from: x });
                    }
                    _ => self.viol("W8", seq, format!("second frame of endpoint {x} is {msg:?}, expected Hello")),
                }
                return;
            }
            _ => {}
        }
        if !self.hello_delivered_to[x] {
            self.viol("W8", seq, format!("endpoint {x} emitted {msg:?} before it received the peer's Hello"));
        }
        if self.goodbye_put[x] {
            self.viol("W8", seq, format!("endpoint {x} emitted {msg:?} after Goodbye"));
        }

        let hostile = self.mode == Mode::HostilePeer;
        let peer_v3 = self.hello_version[y].map(|v| v >= 3);

        match msg {
            Msg::Reset | Msg::Hello { .. } => {
                self.viol("W8", seq, format!("endpoint {x} emitted {msg:?} after the handshake"));
            }
            Msg::Ping => self.stats.pings += 1,
            Msg::OpenPort { client_port, id, .. } => {
                if let Some(v3) = peer_v3 {
                    if id.is_some() != v3 {
                        self.viol("W9", seq, format!("OpenPort id present={} but peer v3={v3}", id.is_some()));
                    }
                }
                if hostile {
                    return;
                }
                self.register_request(x, client_port, true, seq);
                self.client_outstanding[x] += 1;
                self.stats.w5_evals += 1;
                if self.client_outstanding[x] > self.stats.max_w5_outstanding {
                    self.stats.max_w5_outstanding = self.client_outstanding[x];
                }
                if self.client_outstanding[x] > u64::from(self.cfg[y].connect_queue) {
                    self.viol(
                        "W5",
                        seq,
                        format!(
                            "endpoint {x} has {} unanswered OpenPort > peer connect_queue {}",
                            self.client_outstanding[x], self.cfg[y].connect_queue
                        ),
                    );
                }
            }
            Msg::PortOpened { client_port, server_port } => {
                if hostile {
                    return;
                }
                let client = match self.connecting[y].get_mut(&client_port) {
                    Some(c) if !c.answered => {
                        c.answered = true;
                        c.client
                    }
                    _ => {
                        self.viol("W6", seq, format!("PortOpened for port {client_port} that has no unanswered request"));
                        return;
                    }
                };
                self.stats.w6_evals += 1;
                if self.open[x].contains_key(&server_port) || self.connecting[x].contains_key(&server_port) {
                    self.viol("W6", seq, format!("endpoint {x} assigns server port {server_port} which is in use on it"));
                }
                let mut pair = Pair { sides: [Side::default(), Side::default()], flow: [Flow::default(), Flow::default()] };
                pair.sides[x].port = server_port;
                pair.sides[y].port = client_port;
                let idx = self.pairs.len();
                self.pairs.push(pair);
                self.stats.pairs += 1;
                self.open[x].insert(server_port, idx);
                if self.open[y].contains_key(&client_port) {
                    self.viol("W6", seq, format!("client port {client_port} is still open on endpoint {y}"));
                }
                self.open[y].insert(client_port, idx);
                let used = self.in_use(x);
                if used as u64 > u64::from(self.cfg[x].max_ports) {
                    self.viol("W6", seq, format!("endpoint {x} uses {used} ports > max_ports {}", self.cfg[x].max_ports));
                }
                self.set_act(seq, Act::Response { requester: y, client_port, client });
            }
            Msg::Rejected { client_port, .. } => {
                if hostile {
                    return;
                }
                let client = match self.connecting[y].get_mut(&client_port) {
                    Some(c) if !c.answered => {
                        c.answered = true;
                        c.client
                    }
                    _ => {
                        self.viol("W6", seq, format!("Rejected for port {client_port} that has no unanswered request"));
                        return;
                    }
                };
                self.set_act(seq, Act::Response { requester: y, client_port, client });
            }
            Msg::Data { port, first, last } => {
                if hostile {
                    self.expect_payload[x] = Some((usize::MAX, 0, first, last));
                    return;
                }
                let pair = self.lookup(y, port, seq, "Data");
                if let Some(p) = pair {
                    if self.pairs[p].sides[x].sent_send_finish {
                        self.viol("W6", seq, format!("endpoint {x} sends Data on pair {p} after its SendFinish"));
                    }
                }
                self.expect_payload[x] = Some((pair.unwrap_or(usize::MAX), x, first, last));
            }
            Msg::PortData { port, ref ports, ref ids, .. } => {
                if let Some(v3) = peer_v3 {
                    if ids.is_some() != v3 {
                        self.viol("W9", seq, format!("PortData ids present={} but peer v3={v3}", ids.is_some()));
                    }
                }
                if ports.is_empty() {
                    self.stats.zero_port_frames += 1;
                    self.zero_port_by[x] += 1;
                }
                if hostile {
                    return;
                }
                let cost = 4 * ports.len() as u64;
                self.stats.w2_evals += 1;
                if cost > u64::from(self.cfg[y].chunk_size) {
                    self.viol("W2", seq, format!("PortData with {} ports > peer chunk_size {}", ports.len(), self.cfg[y].chunk_size));
                }
                let pair = self.lookup(y, port, seq, "PortData");
                for c in ports {
                    self.register_request(x, *c, false, seq);
                }
                if let Some(pair) = pair {
                    if self.pairs[pair].sides[x].sent_send_finish {
                        self.viol("W6", seq, format!("endpoint {x} sends PortData on pair {pair} after its SendFinish"));
                    }
                    let limit = u64::from(self.cfg[y].receive_buffer);
                    let f = &mut self.pairs[pair].flow[x];
                    f.sent_cost += cost;
                    let outstanding = f.sent_cost.saturating_sub(f.credits_delivered);
                    let over = f.sent_cost > f.credits_delivered + limit;
                    self.stats.w3_evals += 1;
                    let ratio = outstanding * 1000 / limit.max(1);
                    if ratio > self.stats.max_w3_ratio_permille {
                        self.stats.max_w3_ratio_permille = ratio;
                    }
                    if over {
                        self.viol(
                            "W3",
                            seq,
                            format!("endpoint {x}: outstanding {outstanding} > peer receive_buffer {limit} on pair {pair} (ports)"),
                        );
                    }
                    self.set_act(seq, Act::Data { pair, flow: x, cost });
                }
            }
            Msg::PortCredits { port, credits } => {
                if hostile {
                    return;
                }
                if let Some(pair) = self.lookup(y, port, seq, "PortCredits") {
                    if self.pairs[pair].sides[x].sent_recv_finish {
                        self.viol("W6", seq, format!("endpoint {x} sends PortCredits on pair {pair} after its ReceiveFinish"));
                    }
                    let f = &mut self.pairs[pair].flow[y];
                    f.credits_emitted += u64::from(credits);
                    let over = f.credits_emitted > f.delivered_cost;
                    let (e, d) = (f.credits_emitted, f.delivered_cost);
                    self.stats.w4_evals += 1;
                    let ratio = e * 1000 / d.max(1);
                    if d > 0 && ratio > self.stats.max_w4_ratio_permille {
                        self.stats.max_w4_ratio_permille = ratio;
                    }
                    if over {
                        self.viol("W4", seq, format!("endpoint {x} granted {e} credits but only consumed/was handed {d} on pair {pair}"));
                    }
                    self.set_act(seq, Act::Credits { pair, flow: y, credits: u64::from(credits) });
                }
            }
            Msg::SendFinish { port } => {
                if hostile {
                    return;
                }
                if let Some(pair) = self.lookup(y, port, seq, "SendFinish") {
                    if self.pairs[pair].sides[x].sent_send_finish {
                        self.viol("W6", seq, format!("endpoint {x} sent SendFinish twice on pair {pair}"));
                    }
                    self.pairs[pair].sides[x].sent_send_finish = true;
                    if self.pairs[pair].flow[x].in_msg {
                        self.stats.cancelled_msgs += 1;
                        self.pairs[pair].flow[x].in_msg = false;
                    }
                    self.maybe_free(pair, x);
                    self.set_act(seq, Act::SendFinish { pair, to: y });
                }
            }
            Msg::ReceiveClose { port } => {
                if hostile {
                    return;
                }
                if let Some(pair) = self.lookup(y, port, seq, "ReceiveClose") {
                    let s = &mut self.pairs[pair].sides[x];
                    if s.sent_recv_close || s.sent_recv_finish {
                        self.viol("W6", seq, format!("endpoint {x} sent ReceiveClose twice / after ReceiveFinish on pair {pair}"));
                    }
                    self.pairs[pair].sides[x].sent_recv_close = true;
                }
            }
            Msg::ReceiveFinish { port } => {
                if hostile {
                    return;
                }
                if let Some(pair) = self.lookup(y, port, seq, "ReceiveFinish") {
                    if self.pairs[pair].sides[x].sent_recv_finish {
                        self.viol("W6", seq, format!("endpoint {x} sent ReceiveFinish twice on pair {pair}"));
                    }
                    self.pairs[pair].sides[x].sent_recv_finish = true;
                    self.maybe_free(pair, x);
                    self.set_act(seq, Act::RecvFinish { pair, to: y });
                }
            }
            Msg::ClientFinish | Msg::ListenerFinish => {}
            Msg::Goodbye => self.goodbye_put[x] = true,
        }
    }

    /// Frame `seq` was handed to the reader of `dir`.
    pub fn on_deliver(&mut self, _dir: Dir, seq: usize) {
        let act = match self.acts.get(seq) {
            Some(a) => a.clone(),
            None => return,
        };
        match act {
            Act::None => {}
            Act::Hello { from } => self.hello_delivered_to[other(from)] = true,
            Act::Data { pair, flow, cost } => self.pairs[pair].flow[flow].delivered_cost += cost,
            Act::Credits { pair, flow, credits } => self.pairs[pair].flow[flow].credits_delivered += credits,
            Act::SendFinish { pair, to } => {
                self.pairs[pair].sides[to].got_send_finish = true;
                self.maybe_free(pair, to);
            }
            Act::RecvFinish { pair, to } => {
                self.pairs[pair].sides[to].got_recv_finish = true;
                self.maybe_free(pair, to);
            }
            Act::Response { requester, client_port, client } => {
                self.connecting[requester].remove(&client_port);
                if client {
                    self.client_outstanding[requester] = self.client_outstanding[requester].saturating_sub(1);
                }
            }
        }
    }

    pub fn stats_json(&self) -> serde_json::Value {
        let s = &self.stats;
        serde_json::json!({
            "frames": s.frames, "w2_evals": s.w2_evals, "w3_evals": s.w3_evals, "w4_evals": s.w4_evals,
            "w5_evals": s.w5_evals, "w6_evals": s.w6_evals,
            "max_w3_ratio_permille": s.max_w3_ratio_permille, "max_w4_ratio_permille": s.max_w4_ratio_permille,
            "max_w5_outstanding": s.max_w5_outstanding, "zero_port_frames": s.zero_port_frames,
            "pairs": s.pairs, "data_frames": s.data_frames, "multi_chunk_msgs": s.multi_chunk_msgs,
            "cancelled_msgs": s.cancelled_msgs, "pings": s.pings,
        })
    }
}
