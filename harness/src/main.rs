#![allow(dead_code)]
//! Runtime-monitoring harness for remoc. Usage: harness <ID> [--tier quick|thorough] [--seed N] [--replay FILE]

mod clock;
mod evidence;
mod mem;
mod peer;
mod props;
mod refcodec;
mod rng;
mod sched;
mod simnet;
mod wiremon;

use std::{path::PathBuf, time::Instant};

#[global_allocator]
static ALLOC: mem::Counting = mem::Counting;

#[inline(never)]
fn selfcheck_leak() {
    let v = std::hint::black_box(vec![7u8; 1234]);
    std::mem::forget(v);
}

fn main() {
    let args: Vec<String> = std::env::args().collect();
    if args.len() < 2 {
        eprintln!("usage: harness <C01..C20> [--tier quick|thorough] [--seed N] [--threads N] [--replay FILE]");
        std::process::exit(2);
    }
    let id_arg = args[1].to_uppercase();
    let id: &'static str = match props::IDS.iter().find(|i| **i == id_arg) {
        Some(i) => i,
        None => {
            eprintln!("unknown property {id_arg}");
            std::process::exit(2);
        }
    };
    let mut tier = match std::env::var("VERIF_TIER").ok().as_deref() {
        Some("thorough") => evidence::Tier::Thorough,
        _ => evidence::Tier::Quick,
    };
    let mut seed: u64 = std::env::var("VERIF_SEED").ok().and_then(|s| s.parse().ok()).unwrap_or(1);
    let mut threads = std::thread::available_parallelism().map(|n| n.get()).unwrap_or(8).min(16);
    let mut replay = None;
    let mut leg_child = None;
    let mut i = 2;
    while i < args.len() {
        match args[i].as_str() {
            "--tier" => {
                i += 1;
                tier = if args[i] == "thorough" { evidence::Tier::Thorough } else { evidence::Tier::Quick };
            }
            "--seed" => {
                i += 1;
                seed = args[i].parse().expect("seed");
            }
            "--threads" => {
                i += 1;
                threads = args[i].parse().expect("threads");
            }
            "--leg-child" => {
                i += 1;
                leg_child = Some(args[i].parse().expect("runs"));
            }
            "--replay" => {
                i += 1;
                let s = std::fs::read_to_string(&args[i]).expect("replay file");
                let v: serde_json::Value = serde_json::from_str(&s).expect("replay json");
                seed = v["check_seed"].as_u64().unwrap_or(seed);
                if v["tier"].as_str() == Some("thorough") {
                    tier = evidence::Tier::Thorough;
                }
                replay = Some((v["phase"].as_str().unwrap_or("main").to_string(), v["run"].as_u64().unwrap_or(0)));
            }
            other => {
                eprintln!("unknown argument {other}");
                std::process::exit(2);
            }
        }
        i += 1;
    }
    let verif_dir = PathBuf::from(std::env::var("VERIF_DIR").unwrap_or_else(|_| "/verif".to_string()));
    mem::install_panic_hook();
    // Pre-warm remoc's once-per-process thread probe (a raw std::thread): un-warmed, the paused clock of the
    // first run would auto-advance while that thread starts.
    {
        let rt = tokio::runtime::Builder::new_current_thread().enable_time().build().unwrap();
        let ok = rt.block_on(remoc::exec::are_threads_available());
        assert!(ok, "threads must be available in the sandbox");
    }
    let ctx = evidence::Ctx { id, tier, seed, threads, verif_dir, started: Instant::now(), replay, leg_child };
    let code = match props::dispatch(&ctx) {
        Some(c) => c,
        None => {
            eprintln!("property {id} has no check in this build");
            2
        }
    };
    // Self-check of the memcheck leg's reporting path: a block that is certainly lost at exit.
    if leg_child.is_some() && std::env::var("HARNESS_SELFCHECK_LEAK").is_ok() {
        selfcheck_leak();
    }
    // Abandoned (stuck) shard threads must not keep the process alive.
    std::process::exit(code);
}
