//! Panic hook and counting global allocator.

use std::{
    alloc::{GlobalAlloc, Layout, System},
    sync::{
        Mutex,
        atomic::{AtomicUsize, Ordering},
    },
};

pub struct Counting;

static LIVE: AtomicUsize = AtomicUsize::new(0);
static PEAK: AtomicUsize = AtomicUsize::new(0);

// The allocator only keeps two counters; it remembers no addresses, so it hides nothing from
// leak detectors.
unsafe impl GlobalAlloc for Counting {
    unsafe fn alloc(&self, layout: Layout) -> *mut u8 {
        let p = unsafe { System.alloc(layout) };
        if !p.is_null() {
            let n = LIVE.fetch_add(layout.size(), Ordering::Relaxed) + layout.size();
            PEAK.fetch_max(n, Ordering::Relaxed);
        }
        p
    }
    unsafe fn dealloc(&self, ptr: *mut u8, layout: Layout) {
        LIVE.fetch_sub(layout.size(), Ordering::Relaxed);
        unsafe { System.dealloc(ptr, layout) }
    }
    unsafe fn realloc(&self, ptr: *mut u8, layout: Layout, new_size: usize) -> *mut u8 {
        let p = unsafe { System.realloc(ptr, layout, new_size) };
        if !p.is_null() {
            if new_size >= layout.size() {
                let n = LIVE.fetch_add(new_size - layout.size(), Ordering::Relaxed) + (new_size - layout.size());
                PEAK.fetch_max(n, Ordering::Relaxed);
            } else {
                LIVE.fetch_sub(layout.size() - new_size, Ordering::Relaxed);
            }
        }
        p
    }
}

pub fn live_bytes() -> usize {
    LIVE.load(Ordering::Relaxed)
}

pub fn peak_bytes() -> usize {
    PEAK.load(Ordering::Relaxed)
}

#[derive(Clone, Debug)]
pub struct PanicRec {
    pub thread: String,
    pub message: String,
    pub location: String,
}

static PANICS: Mutex<Vec<PanicRec>> = Mutex::new(Vec::new());

pub fn install_panic_hook() {
    std::panic::set_hook(Box::new(|info| {
        let thread = std::thread::current().name().unwrap_or("?").to_string();
        let message = if let Some(s) = info.payload().downcast_ref::<&str>() {
            s.to_string()
        } else if let Some(s) = info.payload().downcast_ref::<String>() {
            s.clone()
        } else {
            "<non-string panic>".to_string()
        };
        let location = info.location().map(|l| format!("{}:{}", l.file(), l.line())).unwrap_or_default();
        if let Ok(mut g) = PANICS.lock() {
            if g.len() < 1000 {
                g.push(PanicRec { thread, message, location });
            }
        }
    }));
}

/// Panics recorded on threads whose name starts with `prefix`, from index `from` on.
pub fn panics_since(prefix: &str, from: usize) -> Vec<PanicRec> {
    let g = PANICS.lock().unwrap();
    g.iter().skip(from).filter(|p| p.thread.starts_with(prefix)).cloned().collect()
}

pub fn panic_count() -> usize {
    PANICS.lock().unwrap().len()
}
