//! The harness as a protocol peer: speaks reference-codec bytes to a real endpoint (C08, C09).

use bytes::Bytes;
use futures::{SinkExt, StreamExt};
use std::{collections::VecDeque, sync::Arc};

use crate::{
    clock::or_quiescent,
    refcodec::{self, HelloCfg, Msg},
    simnet::{Net, NetCfg, NetSink, NetStream},
    wiremon::{EpCfg, Mode, WireMon},
};

#[derive(Debug, Clone)]
pub enum PeerRecv {
    Msg(Msg, Option<Bytes>),
    Undecodable(Bytes, String),
    Eof,
    StreamErr,
    /// Nothing arrived by quiescence.
    Quiet,
}

pub struct Peer {
    pub sink: NetSink,
    pub stream: NetStream,
    pub net: Arc<Net>,
    /// Frames received but not yet consumed by `expect`-style helpers.
    pub backlog: VecDeque<PeerRecv>,
    pub received: Vec<Msg>,
    pub sink_failed: bool,
}

/// Creates a network whose endpoint A is for a real remoc endpoint and endpoint B is the harness peer.
/// `cfg_real` is what the real endpoint will be configured with (for the monitor's Hello check).
pub fn real_vs_peer(netcfg: NetCfg, cfg_real: &remoc::chmux::Cfg, peer_cfg: &HelloCfg) -> ((NetSink, NetStream), Peer) {
    let peer_ep =
        EpCfg { timeout_ms: peer_cfg.timeout_ms, chunk_size: peer_cfg.chunk_size, receive_buffer: peer_cfg.receive_buffer, connect_queue: peer_cfg.connect_queue, max_ports: u32::MAX };
    let mon = WireMon::new(EpCfg::from_cfg(cfg_real), peer_ep, Mode::HostilePeer);
    let net = Net::new(netcfg, Some(mon));
    let (real, (ps, pr)) = net.endpoints();
    (real, Peer { sink: ps, stream: pr, net, backlog: VecDeque::new(), received: Vec::new(), sink_failed: false })
}

impl Peer {
    pub async fn send_raw(&mut self, bytes: Vec<u8>) -> bool {
        if self.sink_failed {
            return false;
        }
        match or_quiescent(self.sink.send(Bytes::from(bytes))).await {
            Some(Ok(())) => true,
            _ => {
                self.sink_failed = true;
                false
            }
        }
    }

    pub async fn send(&mut self, msg: &Msg) -> bool {
        self.send_raw(refcodec::encode(msg)).await
    }

    pub async fn send_data(&mut self, port: u32, first: bool, last: bool, payload: &[u8]) -> bool {
        self.send(&Msg::Data { port, first, last }).await && self.send_raw(payload.to_vec()).await
    }

    pub async fn handshake_send(&mut self, version: u8, cfg: &HelloCfg) -> bool {
        self.send(&Msg::Reset).await && self.send(&Msg::Hello { version, cfg: cfg.clone() }).await
    }

    async fn next_frame(&mut self) -> Option<Result<Bytes, ()>> {
        match or_quiescent(self.stream.next()).await {
            None => None,
            Some(None) => Some(Err(())),
            Some(Some(Ok(b))) => Some(Ok(b)),
            Some(Some(Err(_))) => Some(Err(())),
        }
    }

    /// Receives the next message of the real endpoint (with its payload frame if it is a Data message).
    pub async fn recv(&mut self) -> PeerRecv {
        if let Some(r) = self.backlog.pop_front() {
            return r;
        }
        let frame = match self.next_frame().await {
            None => return PeerRecv::Quiet,
            Some(Err(())) => return PeerRecv::Eof,
            Some(Ok(b)) => b,
        };
        match refcodec::decode(&frame) {
            Ok(m) => {
                if matches!(m, Msg::Data { .. }) {
                    match self.next_frame().await {
                        Some(Ok(p)) => PeerRecv::Msg(m, Some(p)),
                        Some(Err(())) => PeerRecv::Eof,
                        None => PeerRecv::Quiet,
                    }
                } else {
                    PeerRecv::Msg(m, None)
                }
            }
            Err(e) => PeerRecv::Undecodable(frame, e.0),
        }
    }

    /// Receives messages until one satisfies `pred` (others are returned in `skipped`), or nothing more arrives.
    pub async fn recv_until(&mut self, mut pred: impl FnMut(&Msg) -> bool) -> (Option<(Msg, Option<Bytes>)>, Vec<PeerRecv>) {
        let mut skipped = Vec::new();
        loop {
            match self.recv().await {
                PeerRecv::Msg(m, p) => {
                    if pred(&m) {
                        return (Some((m, p)), skipped);
                    }
                    skipped.push(PeerRecv::Msg(m, p));
                }
                other @ (PeerRecv::Quiet | PeerRecv::Eof | PeerRecv::StreamErr) => {
                    skipped.push(other);
                    return (None, skipped);
                }
                other => skipped.push(other),
            }
        }
    }

    /// Drains everything the endpoint emits until quiescence / EOF.
    pub async fn drain(&mut self) -> Vec<PeerRecv> {
        let mut v = Vec::new();
        loop {
            match self.recv().await {
                r @ (PeerRecv::Quiet | PeerRecv::Eof | PeerRecv::StreamErr) => {
                    v.push(r);
                    return v;
                }
                r => v.push(r),
            }
        }
    }
}
