//! Run driver (sharding, watchdog), aggregation, evidence files, replay files, known findings, verdict.

use serde_json::{Value, json};
use std::{
    collections::{BTreeMap, BTreeSet, HashSet},
    path::PathBuf,
    sync::{
        Arc, Mutex,
        atomic::{AtomicBool, AtomicU64, Ordering},
        mpsc,
    },
    time::{Duration, Instant},
};

use crate::simnet::{SHARD_EXTERNAL, SHARD_PROGRESS, set_shard};

#[derive(Clone, Copy, PartialEq, Eq, Debug)]
pub enum Tier {
    Quick,
    Thorough,
}

impl Tier {
    pub fn name(self) -> &'static str {
        match self {
            Tier::Quick => "quick",
            Tier::Thorough => "thorough",
        }
    }
    pub fn pick<T>(self, q: T, t: T) -> T {
        match self {
            Tier::Quick => q,
            Tier::Thorough => t,
        }
    }
}

#[derive(Clone)]
pub struct Ctx {
    pub id: &'static str,
    pub tier: Tier,
    pub seed: u64,
    pub threads: usize,
    pub verif_dir: PathBuf,
    pub started: Instant,
    /// Optional replay: run only this (phase, run index).
    pub replay: Option<(String, u64)>,
    /// Child of a sanitizer leg (runs under valgrind): at most this many runs per phase, no time budget, no
    /// evidence file, no coverage floor.
    pub leg_child: Option<u64>,
}

#[derive(Clone, Debug)]
pub struct Viol {
    pub signature: String,
    pub detail: String,
    pub replay: Value,
}

#[derive(Default)]
pub struct RunOut {
    pub counters: Vec<(&'static str, u64)>,
    pub maxes: Vec<(&'static str, u64)>,
    pub items: Vec<(&'static str, String)>,
    /// Hash of the case if it is non-trivial by the property's rule.
    pub case_hash: Option<u64>,
    pub sample: Option<Value>,
    pub viols: Vec<Viol>,
    pub inconclusive: Option<String>,
}

impl RunOut {
    pub fn count(&mut self, k: &'static str, v: u64) {
        self.counters.push((k, v));
    }
    pub fn max(&mut self, k: &'static str, v: u64) {
        self.maxes.push((k, v));
    }
    pub fn item(&mut self, k: &'static str, v: impl Into<String>) {
        self.items.push((k, v.into()));
    }
    pub fn viol(&mut self, signature: impl Into<String>, detail: impl Into<String>, replay: Value) {
        self.viols.push(Viol { signature: signature.into(), detail: detail.into(), replay });
    }
}

#[derive(Default)]
pub struct Agg {
    pub evaluations: u64,
    pub cases: HashSet<u64>,
    pub counters: BTreeMap<String, u64>,
    pub maxes: BTreeMap<String, u64>,
    pub sets: BTreeMap<String, BTreeSet<String>>,
    pub samples: Vec<Value>,
    pub viols: Vec<(String, u64, u64, Viol)>,
    pub inconclusive: Vec<String>,
    pub stuck: Vec<(String, u64, u64)>,
    /// runs abandoned by the watchdog whose thread was running all the time while the progress counter stood
    /// still: a busy loop inside a single poll (no other task of the runtime can run)
    pub spinning: Vec<(String, u64, u64)>,
}

impl Agg {
    pub fn absorb(&mut self, phase: &str, run: u64, seed: u64, out: RunOut, max_samples: usize) {
        self.evaluations += 1;
        if let Some(h) = out.case_hash {
            self.cases.insert(h);
        }
        for (k, v) in out.counters {
            *self.counters.entry(k.to_string()).or_insert(0) += v;
        }
        for (k, v) in out.maxes {
            let e = self.maxes.entry(k.to_string()).or_insert(0);
            if v > *e {
                *e = v;
            }
        }
        for (k, v) in out.items {
            let s = self.sets.entry(k.to_string()).or_default();
            if s.len() < 4096 {
                s.insert(v);
            }
        }
        if let Some(s) = out.sample {
            if self.samples.len() < max_samples {
                self.samples.push(s);
            }
        }
        for v in out.viols {
            if self.viols.len() < 200 {
                self.viols.push((phase.to_string(), run, seed, v));
            }
        }
        if let Some(i) = out.inconclusive {
            if self.inconclusive.len() < 50 {
                self.inconclusive.push(format!("{phase}#{run}: {i}"));
            }
        }
    }

    pub fn merge(&mut self, other: Agg) {
        self.evaluations += other.evaluations;
        self.cases.extend(other.cases);
        for (k, v) in other.counters {
            *self.counters.entry(k).or_insert(0) += v;
        }
        for (k, v) in other.maxes {
            let e = self.maxes.entry(k).or_insert(0);
            if v > *e {
                *e = v;
            }
        }
        for (k, v) in other.sets {
            self.sets.entry(k).or_default().extend(v);
        }
        for s in other.samples {
            if self.samples.len() < 12 {
                self.samples.push(s);
            }
        }
        self.viols.extend(other.viols);
        self.inconclusive.extend(other.inconclusive);
        self.stuck.extend(other.stuck);
        self.spinning.extend(other.spinning);
    }

    pub fn counter(&self, k: &str) -> u64 {
        self.counters.get(k).copied().unwrap_or(0)
    }
    pub fn maxv(&self, k: &str) -> u64 {
        self.maxes.get(k).copied().unwrap_or(0)
    }
}

pub fn mix(seed: u64, run: u64, salt: u64) -> u64 {
    let mut z = seed ^ run.wrapping_mul(0x9E37_79B9_7F4A_7C15) ^ salt.wrapping_mul(0xD1B5_4A32_D192_ED03);
    z = (z ^ (z >> 30)).wrapping_mul(0xBF58_476D_1CE4_E5B9);
    z = (z ^ (z >> 27)).wrapping_mul(0x94D0_49BB_1331_11EB);
    z ^ (z >> 31)
}

fn thread_states(prefix: &str) -> Vec<(String, char)> {
    let mut v = Vec::new();
    if let Ok(rd) = std::fs::read_dir("/proc/self/task") {
        for e in rd.flatten() {
            let p = e.path().join("stat");
            if let Ok(s) = std::fs::read_to_string(p) {
                // pid (comm) state ...
                if let (Some(l), Some(r)) = (s.find('('), s.rfind(')')) {
                    let comm = &s[l + 1..r];
                    let state = s[r + 1..].trim_start().chars().next().unwrap_or('?');
                    if comm.starts_with(prefix) {
                        v.push((comm.to_string(), state));
                    }
                }
            }
        }
    }
    v
}

/// Runs `n` seeded executions of `f` on `ctx.threads` shard threads and aggregates their outputs.
///
/// `budget`: soft wall-clock budget; no new runs are started after it (the evaluations count says what was
/// done). `per_run_watchdog`: a single run exceeding this much wall-clock time is abandoned: classified as
/// *stuck* if the shard's threads are all blocked and its progress counter does not move (OS-level
/// quiescence), otherwise *inconclusive*.
pub fn shard_runs(
    ctx: &Ctx, phase: &'static str, n: u64, budget: Duration, per_run_watchdog: Duration,
    f: Arc<dyn Fn(u64, u64) -> RunOut + Send + Sync>,
) -> Agg {
    let (n, budget, per_run_watchdog) = match ctx.leg_child {
        Some(m) => (n.min(m), Duration::from_secs(3600), per_run_watchdog * 20),
        None => (n, budget, per_run_watchdog),
    };
    let next = Arc::new(AtomicU64::new(0));
    let stop = Arc::new(AtomicBool::new(false));
    let threads = ctx.threads.max(1).min(60);
    let (tx, rx) = mpsc::channel::<(usize, Option<(u64, u64, RunOut)>)>();
    // per shard: (current run + 1, start millis since t0)
    let cur: Arc<Vec<(AtomicU64, AtomicU64)>> =
        Arc::new((0..threads).map(|_| (AtomicU64::new(0), AtomicU64::new(0))).collect());
    let t0 = Instant::now();
    let only_run = match &ctx.replay {
        Some((p, r)) if p == phase => Some(*r),
        Some(_) => return Agg::default(),
        None => None,
    };

    for shard in 0..threads {
        let (next, stop, tx, f, cur) = (next.clone(), stop.clone(), tx.clone(), f.clone(), cur.clone());
        let seed = ctx.seed;
        std::thread::Builder::new()
            .name(format!("sh{shard}-main"))
            .stack_size(16 << 20)
            .spawn(move || {
                set_shard(shard);
                crate::clock::set_thread_prefix(format!("sh{shard}-"));
                loop {
                    if stop.load(Ordering::Relaxed) {
                        break;
                    }
                    let run = match only_run {
                        Some(r) => {
                            if next.fetch_add(1, Ordering::Relaxed) > 0 {
                                break;
                            }
                            r
                        }
                        None => next.fetch_add(1, Ordering::Relaxed),
                    };
                    if run >= n && only_run.is_none() {
                        break;
                    }
                    let rseed = mix(seed, run, 0);
                    cur[shard].1.store(t0.elapsed().as_millis() as u64, Ordering::Relaxed);
                    cur[shard].0.store(run + 1, Ordering::Relaxed);
                    let exec = |run: u64, rseed: u64| -> RunOut {
                        let pc0 = crate::mem::panic_count();
                        match std::panic::catch_unwind(std::panic::AssertUnwindSafe(|| f(run, rseed))) {
                            Ok(o) => o,
                            Err(_) => {
                                // a panic on the shard's main thread (harness or code under test polled by block_on)
                                let mut o = RunOut::default();
                                let ps = crate::mem::panics_since("", pc0);
                                let d = ps.last().map(|p| format!("{} at {}", p.message, p.location)).unwrap_or_default();
                                o.viol(format!("{}:panic-on-run-thread", "RUN"), format!("run {run} (seed {rseed}) panicked: {d}"), serde_json::json!({"run": run, "seed": rseed, "panic": d}));
                                o
                            }
                        }
                    };
                    crate::clock::REALTIME_USED.with(|f| f.set(false));
                    let mut out = exec(run, rseed);
                    // A run that took a quiescence decision on the real-time path (helper threads alive) is not a
                    // deterministic function of its seed: its verdict depends on OS scheduling. A violation
                    // reported by such a run is re-examined by executing the same run twice more; it counts only
                    // if it shows again (same signature). Otherwise it is recorded as an unconfirmed observation
                    // (inconclusive), never as a violation.
                    if !out.viols.is_empty() && crate::clock::REALTIME_USED.with(|f| f.get()) && only_run.is_none() {
                        let mut again: std::collections::HashSet<String> = std::collections::HashSet::new();
                        for _ in 0..2 {
                            let o2 = exec(run, rseed);
                            for v in &o2.viols {
                                again.insert(v.signature.clone());
                            }
                        }
                        let (kept, dropped): (Vec<Viol>, Vec<Viol>) = out.viols.drain(..).partition(|v| again.contains(&v.signature));
                        out.viols = kept;
                        if !dropped.is_empty() {
                            let sigs: Vec<String> = dropped.iter().map(|v| v.signature.clone()).collect();
                            out.inconclusive = Some(format!("violation(s) {sigs:?} of a run whose quiescence was decided on the real-time path did not show again in two re-executions of the same run (seed {rseed}): {}", dropped[0].detail.chars().take(200).collect::<String>()));
                        }
                    }
                    cur[shard].0.store(0, Ordering::Relaxed);
                    if tx.send((shard, Some((run, rseed, out)))).is_err() {
                        break;
                    }
                }
                let _ = tx.send((shard, None));
            })
            .unwrap();
    }
    drop(tx);

    let known_sigs: HashSet<String> =
        load_known(ctx).into_iter().filter(|k| k.property == ctx.id && k.status == "known").map(|k| k.signature).collect();
    let mut agg = Agg::default();
    let mut alive: HashSet<usize> = (0..threads).collect();
    let mut unknown_viols = 0usize;
    while !alive.is_empty() {
        match rx.recv_timeout(Duration::from_millis(250)) {
            Ok((shard, None)) => {
                alive.remove(&shard);
            }
            Ok((_shard, Some((run, rseed, out)))) => {
                unknown_viols += out.viols.iter().filter(|v| !known_sigs.contains(&v.signature)).count();
                agg.absorb(phase, run, rseed, out, 6);
                if unknown_viols >= 40 {
                    stop.store(true, Ordering::Relaxed);
                }
            }
            Err(mpsc::RecvTimeoutError::Timeout) => {}
            Err(mpsc::RecvTimeoutError::Disconnected) => break,
        }
        if t0.elapsed() > budget {
            stop.store(true, Ordering::Relaxed);
        }
        // watchdog
        let now_ms = t0.elapsed().as_millis() as u64;
        for shard in alive.clone() {
            let r = cur[shard].0.load(Ordering::Relaxed);
            let st = cur[shard].1.load(Ordering::Relaxed);
            if r != 0 && now_ms.saturating_sub(st) > per_run_watchdog.as_millis() as u64 {
                // OS-level quiescence check for this shard's threads.
                let prefix = format!("sh{shard}-");
                let mut quiescent = true;
                let mut spinning = true;
                let p0 = SHARD_PROGRESS[shard % 64].load(Ordering::Relaxed);
                let e0 = SHARD_EXTERNAL[shard % 64].load(Ordering::Relaxed);
                let mut last_p = p0;
                for _ in 0..20 {
                    std::thread::sleep(Duration::from_millis(150));
                    let states = thread_states(&prefix);
                    if states.is_empty() || states.iter().any(|(_, s)| *s != 'S') {
                        quiescent = false;
                    }
                    // busy without any externally visible event: either one poll that never returns (progress
                    // frozen) or tasks that keep waking each other (polls advance in every sample)
                    let p = SHARD_PROGRESS[shard % 64].load(Ordering::Relaxed);
                    let frozen = p == p0;
                    let churning = p != last_p;
                    last_p = p;
                    if !states.iter().any(|(n, s)| n.ends_with("main") && *s == 'R') || !(frozen || churning) {
                        spinning = false;
                    }
                    if SHARD_EXTERNAL[shard % 64].load(Ordering::Relaxed) != e0 {
                        spinning = false;
                    }
                    if p != p0 {
                        quiescent = false;
                    }
                    if !quiescent && !spinning {
                        break;
                    }
                }
                if cur[shard].0.load(Ordering::Relaxed) != r {
                    continue; // it finished meanwhile
                }
                let run = r - 1;
                let rseed = mix(ctx.seed, run, 0);
                if quiescent {
                    agg.stuck.push((phase.to_string(), run, rseed));
                } else if spinning {
                    agg.spinning.push((phase.to_string(), run, rseed));
                } else {
                    agg.inconclusive.push(format!("{phase}#{run}: watchdog fired after {per_run_watchdog:?} (threads not quiescent)"));
                }
                alive.remove(&shard); // abandon that shard thread
            }
        }
    }
    agg
}

#[derive(Clone, Debug)]
pub struct KnownFinding {
    pub property: String,
    pub status: String,
    pub signature: String,
    pub what: String,
}

pub fn load_known(ctx: &Ctx) -> Vec<KnownFinding> {
    let p = ctx.verif_dir.join("known_findings.json");
    let mut v = Vec::new();
    if let Ok(s) = std::fs::read_to_string(p) {
        if let Ok(Value::Object(o)) = serde_json::from_str::<Value>(&s) {
            if let Some(Value::Array(a)) = o.get("findings") {
                for e in a {
                    v.push(KnownFinding {
                        property: e["property"].as_str().unwrap_or("").to_string(),
                        status: e["status"].as_str().unwrap_or("").to_string(),
                        signature: e["signature"].as_str().unwrap_or("").to_string(),
                        what: e["what"].as_str().unwrap_or("").to_string(),
                    });
                }
            }
        }
    }
    v
}

pub struct Report {
    pub level: &'static str,
    pub rule: String,
    pub explanation: String,
    pub assumptions: Vec<String>,
    pub exhaustive: bool,
    pub min_nontrivial: u64,
    /// Additional coverage keys.
    pub extra: BTreeMap<String, Value>,
}

/// Writes the evidence file, prints VIOLATION / KNOWN-FINDING lines and returns the process exit code.
pub fn finish(ctx: &Ctx, agg: Agg, rep: Report) -> i32 {
    let known = load_known(ctx);
    let mut known_hit: BTreeMap<String, (String, u64)> = BTreeMap::new();
    let mut unknown: Vec<&(String, u64, u64, Viol)> = Vec::new();
    for v in &agg.viols {
        match known.iter().find(|k| k.property == ctx.id && k.status == "known" && k.signature == v.3.signature) {
            Some(k) => {
                let e = known_hit.entry(k.signature.clone()).or_insert((k.what.clone(), 0));
                e.1 += 1;
            }
            None => unknown.push(v),
        }
    }

    let mut coverage = serde_json::Map::new();
    coverage.insert("evaluations".into(), json!(agg.evaluations));
    coverage.insert("distinct_nontrivial".into(), json!(agg.cases.len() as u64));
    coverage.insert("rule".into(), json!(rep.rule));
    coverage.insert("samples".into(), Value::Array(agg.samples.clone()));
    coverage.insert("explanation".into(), json!(rep.explanation));
    coverage.insert("exhaustive".into(), json!(rep.exhaustive));
    coverage.insert("observed".into(), json!(agg.counters));
    coverage.insert("observed_max".into(), json!(agg.maxes));
    let sets: BTreeMap<String, Value> = agg
        .sets
        .iter()
        .map(|(k, v)| (k.clone(), json!({"distinct": v.len(), "first": v.iter().take(40).collect::<Vec<_>>()})))
        .collect();
    coverage.insert("observed_sets".into(), json!(sets));
    coverage.insert("inconclusive_runs".into(), json!(agg.inconclusive));
    coverage.insert(
        "stuck_runs".into(),
        json!(agg.stuck.iter().map(|(p, r, s)| format!("{p}#{r} seed={s}")).collect::<Vec<_>>()),
    );
    coverage.insert(
        "spinning_runs".into(),
        json!(agg.spinning.iter().map(|(p, r, s)| format!("{p}#{r} seed={s}")).collect::<Vec<_>>()),
    );
    coverage.insert(
        "known_findings_observed".into(),
        json!(known_hit.iter().map(|(s, (w, n))| json!({"signature": s, "what": w, "runs": n})).collect::<Vec<_>>()),
    );
    for (k, v) in rep.extra {
        coverage.insert(k, v);
    }

    let ev = json!({
        "property_id": ctx.id,
        "tier": ctx.tier.name(),
        "seed": ctx.seed,
        "level": rep.level,
        "coverage": Value::Object(coverage),
        "assumptions": rep.assumptions,
        "wall_s": ctx.started.elapsed().as_secs_f64(),
        "violations": unknown.len(),
    });
    if ctx.replay.is_none() && ctx.leg_child.is_none() {
        let dir = ctx.verif_dir.join("evidence");
        let _ = std::fs::create_dir_all(&dir);
        let path = dir.join(format!("{}.json", ctx.id));
        let tmp = dir.join(format!("{}.json.tmp", ctx.id));
        std::fs::write(&tmp, serde_json::to_string_pretty(&ev).unwrap()).expect("write evidence");
        std::fs::rename(&tmp, &path).expect("rename evidence");
    }

    for (sig, (what, n)) in &known_hit {
        println!("KNOWN-FINDING: property={} {} [{}; observed in {} runs]", ctx.id, what, sig, n);
    }
    println!(
        "{} {}: evaluations={} distinct_nontrivial={} violations={} known={} inconclusive={} stuck={} wall={:.1}s",
        ctx.id,
        ctx.tier.name(),
        agg.evaluations,
        agg.cases.len(),
        unknown.len(),
        known_hit.len(),
        agg.inconclusive.len(),
        agg.stuck.len(),
        ctx.started.elapsed().as_secs_f64()
    );

    if !unknown.is_empty() {
        let dir = ctx.verif_dir.join("replays").join(ctx.id);
        let _ = std::fs::create_dir_all(&dir);
        let mut seen = BTreeSet::new();
        let mut printed = 0;
        for (i, (phase, run, seed, v)) in unknown.iter().enumerate() {
            if !seen.insert(v.signature.clone()) && printed >= 3 {
                continue;
            }
            if printed >= 8 {
                break;
            }
            printed += 1;
            let path = dir.join(format!("{}-{}-{}-{}.json", ctx.seed, phase, run, i));
            let body = json!({
                "property": ctx.id, "tier": ctx.tier.name(), "check_seed": ctx.seed, "phase": phase, "run": run,
                "run_seed": seed, "signature": v.signature, "detail": v.detail, "witness": v.replay,
            });
            let _ = std::fs::write(&path, serde_json::to_string_pretty(&body).unwrap());
            println!("  signature={} :: {}", v.signature, v.detail.chars().take(400).collect::<String>());
            println!("VIOLATION property={} replay={}", ctx.id, path.display());
        }
        return 1;
    }

    if ctx.replay.is_some() || ctx.leg_child.is_some() {
        return 0;
    }
    if agg.evaluations == 0 || (agg.cases.len() as u64) < rep.min_nontrivial.max(2) {
        println!(
            "BROKEN property={}: workload did not reach what it claims (evaluations={}, distinct non-trivial={} < floor {})",
            ctx.id,
            agg.evaluations,
            agg.cases.len(),
            rep.min_nontrivial.max(2)
        );
        return 2;
    }
    0
}

/// Shared mutable sample collector etc. can use this helper to keep deterministic small lists.
pub fn push_limited<T>(v: &Mutex<Vec<T>>, x: T, max: usize) {
    let mut g = v.lock().unwrap();
    if g.len() < max {
        g.push(x);
    }
}

/// Sanitizer leg: re-runs the first `runs` runs of every phase of this check in a child process under valgrind
/// memcheck (invalid reads/writes, uses of uninitialised memory, invalid frees, and blocks definitely or
/// indirectly lost at exit). Returns what was observed (for the evidence file) and violations. A leg that cannot
/// run (valgrind missing, child killed by the wall-clock limit, unreadable log) is *inconclusive* and says so.
pub fn memcheck_leg(ctx: &Ctx, runs: u64) -> (Value, Vec<(String, u64, u64, Viol)>) {
    let mut viols = Vec::new();
    if ctx.replay.is_some() || ctx.leg_child.is_some() {
        return (json!({"status": "not run (replay or child)"}), viols);
    }
    let dir = ctx.verif_dir.join("harness").join("target").join("legs").join(ctx.id);
    let _ = std::fs::remove_dir_all(&dir);
    if std::fs::create_dir_all(&dir).is_err() {
        return (json!({"status": "inconclusive: cannot create the leg directory"}), viols);
    }
    let _ = std::fs::copy(ctx.verif_dir.join("known_findings.json"), dir.join("known_findings.json"));
    let exe = match std::env::current_exe() {
        Ok(e) => e,
        Err(e) => return (json!({"status": format!("inconclusive: current_exe: {e}")}), viols),
    };
    let log = dir.join("memcheck.log");
    let t0 = Instant::now();
    let child = std::process::Command::new("valgrind")
        .arg("--leak-check=full")
        .arg("--show-leak-kinds=definite,indirect")
        .arg("--errors-for-leak-kinds=definite,indirect")
        .arg("--error-exitcode=77")
        .arg("--num-callers=30")
        .arg(format!("--log-file={}", log.display()))
        .arg(&exe)
        .arg(ctx.id)
        .args(["--tier", ctx.tier.name(), "--seed", &ctx.seed.to_string(), "--threads", "2", "--leg-child", &runs.to_string()])
        .env("VERIF_DIR", &dir)
        .stdout(std::process::Stdio::piped())
        .stderr(std::process::Stdio::null())
        .spawn();
    let mut child = match child {
        Ok(c) => c,
        Err(e) => return (json!({"status": format!("inconclusive: valgrind could not be started: {e}")}), viols),
    };
    // wall-clock limit: inconclusive, never a violation
    let limit = Duration::from_secs(1500);
    let status = loop {
        match child.try_wait() {
            Ok(Some(st)) => break Some(st),
            Ok(None) if t0.elapsed() > limit => {
                let _ = child.kill();
                let _ = child.wait();
                break None;
            }
            Ok(None) => std::thread::sleep(Duration::from_millis(200)),
            Err(_) => break None,
        }
    };
    let mut out = String::new();
    if let Some(mut so) = child.stdout.take() {
        use std::io::Read;
        let _ = so.read_to_string(&mut out);
    }
    let Some(status) = status else {
        return (json!({"status": format!("inconclusive: child exceeded the wall-clock limit of {limit:?}")}), viols);
    };
    let logtxt = std::fs::read_to_string(&log).unwrap_or_default();
    let num_after = |key: &str| -> Option<u64> {
        logtxt.lines().rev().find(|l| l.contains(key)).and_then(|l| l.split(key).nth(1)).and_then(|r| r.trim().split(' ').next().map(|x| x.replace(',', ""))).and_then(|x| x.parse().ok())
    };
    let errors = num_after("ERROR SUMMARY:");
    let def_lost = num_after("definitely lost:");
    let ind_lost = num_after("indirectly lost:");
    let allocs = num_after("total heap usage:");
    let summary = out.lines().rev().find(|l| l.contains("evaluations=")).unwrap_or("").to_string();
    let code = status.code();
    let mut obs = json!({
        "tool": "valgrind memcheck (leak kinds: definite, indirect) on the release harness, 2 shard threads",
        "runs_per_phase": runs, "child_exit": code, "child_summary": summary, "memcheck_errors": errors,
        "definitely_lost_bytes": def_lost, "indirectly_lost_bytes": ind_lost, "heap_allocations_observed": allocs,
        "wall_s": t0.elapsed().as_secs_f64(),
    });
    if errors.is_none() || allocs.is_none() {
        obs["status"] = json!("inconclusive: memcheck log has no summary");
        return (obs, viols);
    }
    if errors.unwrap_or(0) > 0 || def_lost.unwrap_or(0) > 0 || ind_lost.unwrap_or(0) > 0 {
        // first report block of the log as the witness
        let block: Vec<&str> = logtxt.lines().skip_while(|l| !(l.contains("Invalid ") || l.contains("uninitialised") || l.contains("are definitely lost") || l.contains("are indirectly lost") || l.contains("Mismatched"))).take(32).collect();
        let first = block.first().map(|l| l.split("== ").nth(1).unwrap_or(l).to_string()).unwrap_or_default();
        let kind = if first.contains("lost") { "leak" } else { "memory-error" };
        viols.push((
            "memcheck".to_string(),
            0,
            ctx.seed,
            Viol { signature: format!("{}:memcheck:{kind}", ctx.id), detail: format!("valgrind memcheck reported {} error contexts ({} bytes definitely, {} indirectly lost); first: {first}", errors.unwrap_or(0), def_lost.unwrap_or(0), ind_lost.unwrap_or(0)), replay: json!({"log": log.display().to_string(), "first_report": block}) },
        ));
        obs["status"] = json!("violated");
    } else if code == Some(1) {
        // behavioural violation under valgrind's timing: pass the child's lines on
        for l in out.lines().filter(|l| l.trim_start().starts_with("signature=")) {
            let sig = l.trim_start().trim_start_matches("signature=").split(' ').next().unwrap_or("").to_string();
            viols.push(("memcheck".to_string(), 0, ctx.seed, Viol { signature: sig, detail: format!("(observed in the memcheck leg) {}", l.trim()), replay: json!({"child_output": out.lines().rev().take(20).collect::<Vec<_>>(), "leg_dir": dir.display().to_string()}) }));
        }
        obs["status"] = json!("behavioural violation in the child");
    } else if code == Some(0) {
        obs["status"] = json!("held: no memcheck error, nothing definitely or indirectly lost at exit");
    } else {
        obs["status"] = json!(format!("inconclusive: child exit {code:?}"));
    }
    (obs, viols)
}
