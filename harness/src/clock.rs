//! Virtual-time runtime, quiescence detection.

use std::{future::Future, time::Duration};

use crate::simnet::progress;

/// Builds a fresh current-thread runtime with a paused (virtual) clock and a seeded `select!` RNG and runs
/// `fut` to completion on it. All tasks spawned during the run are dropped when this returns.
pub fn run_virtual<F: Future>(seed: u64, fut: F) -> F::Output {
    let mut sb = [0u8; 32];
    sb[..8].copy_from_slice(&seed.to_le_bytes());
    sb[8..16].copy_from_slice(&seed.rotate_left(17).to_le_bytes());
    let rt = tokio::runtime::Builder::new_current_thread()
        .enable_time()
        .start_paused(true)
        .thread_name(format!("{}blk", thread_prefix()))
        .rng_seed(tokio::runtime::RngSeed::from_bytes(&sb))
        .build()
        .unwrap();
    let out = rt.block_on(fut);
    drop(rt);
    out
}

/// Multi-thread runtime with a real clock (for the multi-thread legs).
pub fn run_threads<F: Future>(workers: usize, fut: F) -> F::Output {
    let rt = tokio::runtime::Builder::new_multi_thread().worker_threads(workers).enable_time().build().unwrap();
    let out = rt.block_on(fut);
    rt.shutdown_timeout(Duration::from_millis(100));
    out
}

/// Waits for quiescence on the virtual clock: returns when the progress counter (wire events, API events,
/// polls of internal tasks) did not move across a 1 ms virtual sleep. Because the paused clock only
/// advances when every task is parked, this means nothing can make progress any more without a timer
/// firing or a new external action. Returns the number of sleeps taken.
pub async fn settle() -> u32 {
    let mut n = 0;
    loop {
        let p0 = progress();
        tokio::time::sleep(Duration::from_millis(1)).await;
        for _ in 0..3 {
            tokio::task::yield_now().await;
        }
        n += 1;
        if progress() == p0 {
            return n;
        }
        if n > 200_000 {
            // Something keeps making "progress" for 200 virtual seconds: treated by callers as livelock
            // candidate (they look at frame budgets / counters), never as a verdict by itself.
            return n;
        }
    }
}

/// Like [`settle`] but advances virtual time by `d` first (e.g. past connection timeouts).
pub async fn advance_and_settle(d: Duration) -> u32 {
    tokio::time::sleep(d).await;
    settle().await
}

thread_local! {
    static THREAD_PREFIX: std::cell::RefCell<String> = const { std::cell::RefCell::new(String::new()) };
}

/// Name prefix for helper threads of runtimes built on this thread (used by the watchdog's OS-level
/// quiescence check).
pub fn set_thread_prefix(p: String) {
    THREAD_PREFIX.with(|t| *t.borrow_mut() = p);
}

pub fn thread_prefix() -> String {
    THREAD_PREFIX.with(|t| t.borrow().clone())
}

/// Runs `fut` until it completes or until quiescence is reached (nothing can make progress any more
/// without a timer or an external action), in which case `None` is returned and `fut` is dropped.
/// Work done *inside* `fut` itself is not counted as progress: `fut` should only wait for spawned (counted)
/// tasks, simnet traffic or remoc's internal tasks.
pub async fn or_quiescent<F: Future>(fut: F) -> Option<F::Output> {
    tokio::select! {
        biased;
        v = fut => Some(v),
        _ = settle() => None,
    }
}
