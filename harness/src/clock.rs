//! Virtual-time runtime, quiescence detection.

use std::{future::Future, pin::Pin, task::{Context, Poll}, time::Duration};

use crate::simnet::progress;

/// Builds a fresh current-thread runtime with a paused (virtual) clock and a seeded `select!` RNG and runs
/// `fut` to completion on it. All tasks spawned during the run are dropped when this returns.
pub fn run_virtual<F: Future>(seed: u64, fut: F) -> F::Output {
    let mut sb = [0u8; 32];
    sb[..8].copy_from_slice(&seed.to_le_bytes());
    sb[8..16].copy_from_slice(&seed.rotate_left(17).to_le_bytes());
    let rt = tokio::runtime::Builder::new_current_thread()
        .enable_time()
        .start_paused(true)
        .thread_name(format!("{}blk", thread_prefix()))
        .rng_seed(tokio::runtime::RngSeed::from_bytes(&sb))
        .build()
        .unwrap();
    let out = rt.block_on(fut);
    drop(rt);
    out
}

/// Multi-thread runtime with a real clock (for the multi-thread legs).
pub fn run_threads<F: Future>(workers: usize, fut: F) -> F::Output {
    let rt = tokio::runtime::Builder::new_multi_thread().worker_threads(workers).enable_time().build().unwrap();
    let out = rt.block_on(fut);
    rt.shutdown_timeout(Duration::from_millis(100));
    out
}

thread_local! {
    /// Set when a quiescence decision on this thread had to be taken on the real-time path (helper threads
    /// alive): such a decision depends on OS scheduling, the run is then not a deterministic function of its seed.
    pub static REALTIME_USED: std::cell::Cell<bool> = const { std::cell::Cell::new(false) };
}

/// Waits for quiescence: returns when the progress counter (wire events, API events, polls of internal and
/// harness tasks) did not move across a pause during which the runtime was idle.
///
/// Normal case (no (de)serialisation helper thread alive): the pause is a 1 ms *virtual* sleep; the paused clock
/// only advances when every task is parked, so its return means nothing can make progress any more without a
/// timer firing or a new external action.
///
/// While a `spawn_blocking` helper is alive tokio freezes the paused clock, so a virtual sleep would never
/// return. In that case the pause is a short real-time one, and quiescence additionally requires that every
/// helper thread of this runtime is blocked (state `S` in /proc) for three consecutive pauses with the progress
/// counter unchanged - a fact about the process, not a wall-clock deadline.
pub async fn settle() -> u32 {
    let mut n = 0;
    let mut idle_rounds = 0;
    let mut idle_since: Option<std::time::Instant> = None;
    loop {
        let p0 = progress();
        let m = tokio::runtime::Handle::current().metrics();
        let busy = m.num_blocking_threads().saturating_sub(m.num_idle_blocking_threads());
        if std::env::var("HARNESS_DEBUG").is_ok() {
            eprintln!("settle: n={n} busy={busy} blocking={} idle={} progress={p0}", m.num_blocking_threads(), m.num_idle_blocking_threads());
        }
        if busy == 0 {
            // the virtual sleep fires as soon as the runtime is idle - unless a helper thread starts meanwhile
            // and freezes the clock; a real-time tick from outside the runtime breaks that wait
            let virt = tokio::select! {
                biased;
                _ = tokio::time::sleep(Duration::from_millis(1)) => true,
                _ = RealTick::new() => false,
            };
            for _ in 0..3 {
                tokio::task::yield_now().await;
            }
            n += 1;
            if virt && progress() == p0 {
                if std::env::var("HARNESS_SELFCHECK").is_ok() {
                    let _ = tokio::task::spawn_blocking(|| std::thread::sleep(Duration::from_millis(30))).await;
                    for _ in 0..5 {
                        tokio::task::yield_now().await;
                    }
                    if progress() != p0 {
                        eprintln!("FALSE-QUIESCENCE(virtual): progress moved {} -> {} after the decision; threads: {:?}", p0, progress(), thread_states());
                    }
                }
                return n;
            }
            idle_rounds = 0;
        } else {
            let _ = tokio::task::spawn_blocking(|| std::thread::sleep(Duration::from_micros(250))).await;
            for _ in 0..3 {
                tokio::task::yield_now().await;
            }
            n += 1;
            REALTIME_USED.with(|f| f.set(true));
            if progress() == p0 && m.blocking_queue_depth() == 0 && helper_threads_blocked() {
                idle_rounds += 1;
                let since = *idle_since.get_or_insert_with(std::time::Instant::now);
                // at least six rounds and five milliseconds of real time without any sign of life
                if idle_rounds >= 6 && since.elapsed() >= Duration::from_millis(5) {
                    if std::env::var("HARNESS_SELFCHECK").is_ok() {
                        let _ = tokio::task::spawn_blocking(|| std::thread::sleep(Duration::from_millis(30))).await;
                        for _ in 0..5 {
                            tokio::task::yield_now().await;
                        }
                        if progress() != p0 {
                            eprintln!("FALSE-QUIESCENCE: progress moved {} -> {} after the decision; threads: {:?}", p0, progress(), thread_states());
                        }
                    }
                    return n;
                }
            } else {
                idle_rounds = 0;
                idle_since = None;
            }
        }
        if n > 200_000 {
            // Something keeps making "progress" for a very long time: treated by callers as a livelock
            // candidate (they look at frame budgets / counters), never as a verdict by itself.
            return n;
        }
    }
}

/// A future that is woken by a process-wide ticker thread (outside any runtime) after about half a millisecond
/// of real time.
struct RealTick {
    registered: bool,
    fired: std::sync::Arc<std::sync::atomic::AtomicBool>,
}

static TICKER: std::sync::OnceLock<std::sync::Mutex<Vec<(std::task::Waker, std::sync::Arc<std::sync::atomic::AtomicBool>)>>> = std::sync::OnceLock::new();

impl RealTick {
    fn new() -> Self {
        Self { registered: false, fired: std::sync::Arc::new(std::sync::atomic::AtomicBool::new(false)) }
    }
}

impl Future for RealTick {
    type Output = ();
    fn poll(mut self: std::pin::Pin<&mut Self>, cx: &mut std::task::Context<'_>) -> std::task::Poll<()> {
        if self.fired.load(std::sync::atomic::Ordering::SeqCst) {
            return std::task::Poll::Ready(());
        }
        if !self.registered {
            self.registered = true;
            let q = TICKER.get_or_init(|| {
                std::thread::Builder::new()
                    .name("ticker".into())
                    .spawn(|| {
                        loop {
                            std::thread::sleep(Duration::from_micros(500));
                            let v: Vec<_> = std::mem::take(&mut *TICKER.get().unwrap().lock().unwrap());
                            for (w, f) in v {
                                f.store(true, std::sync::atomic::Ordering::SeqCst);
                                w.wake();
                            }
                        }
                    })
                    .unwrap();
                std::sync::Mutex::new(Vec::new())
            });
            q.lock().unwrap().push((cx.waker().clone(), self.fired.clone()));
        }
        std::task::Poll::Pending
    }
}

fn thread_states() -> Vec<(String, char)> {
    let mut v = Vec::new();
    if let Ok(rd) = std::fs::read_dir("/proc/self/task") {
        for e in rd.flatten() {
            if let Ok(s) = std::fs::read_to_string(e.path().join("stat")) {
                if let (Some(l), Some(r)) = (s.find('('), s.rfind(')')) {
                    v.push((s[l + 1..r].to_string(), s[r + 1..].trim_start().chars().next().unwrap_or('?')));
                }
            }
        }
    }
    v
}

/// True if every other thread of this shard (helper threads of the blocking pool, including ones that are
/// just starting and still carry the parent's name) is in a blocked state.
fn helper_threads_blocked() -> bool {
    let prefix = thread_prefix();
    if prefix.is_empty() {
        return false;
    }
    let me = std::fs::read_link("/proc/thread-self").ok().and_then(|p| p.file_name().map(|f| f.to_string_lossy().to_string()));
    if let Ok(rd) = std::fs::read_dir("/proc/self/task") {
        for e in rd.flatten() {
            if Some(e.file_name().to_string_lossy().to_string()) == me {
                continue;
            }
            if let Ok(s) = std::fs::read_to_string(e.path().join("stat")) {
                if let (Some(l), Some(r)) = (s.find('('), s.rfind(')')) {
                    let comm = &s[l + 1..r];
                    let state = s[r + 1..].trim_start().chars().next().unwrap_or('?');
                    if comm.starts_with(&prefix) && state != 'S' {
                        return false;
                    }
                }
            }
        }
    }
    true
}

/// Like [`settle`] but advances virtual time by `d` first (e.g. past connection timeouts).
pub async fn advance_and_settle(d: Duration) -> u32 {
    tokio::time::sleep(d).await;
    settle().await
}

thread_local! {
    static THREAD_PREFIX: std::cell::RefCell<String> = const { std::cell::RefCell::new(String::new()) };
}

/// Name prefix for helper threads of runtimes built on this thread (used by the watchdog's OS-level
/// quiescence check).
pub fn set_thread_prefix(p: String) {
    THREAD_PREFIX.with(|t| *t.borrow_mut() = p);
}

pub fn thread_prefix() -> String {
    THREAD_PREFIX.with(|t| t.borrow().clone())
}

/// Runs `fut` until it completes or until quiescence is reached (nothing can make progress any more
/// without a timer or an external action), in which case `None` is returned and `fut` is dropped.
///
/// A wake-up *of `fut` itself* counts as progress (something it waits for happened: a chunk handed over by a
/// helper thread, a frame that reached its port), so quiescence cannot be declared while `fut` is still being
/// driven forward by events the progress counter does not see. Polls of `fut` that merely happen because the
/// other branch was woken do not count.
pub async fn or_quiescent<F: Future>(fut: F) -> Option<F::Output> {
    tokio::select! {
        biased;
        v = WakeCounted::new(fut) => Some(v),
        _ = settle() => None,
    }
}

struct WakeFlag {
    woken: std::sync::atomic::AtomicBool,
    inner: std::sync::Mutex<Option<std::task::Waker>>,
}

impl std::task::Wake for WakeFlag {
    fn wake(self: std::sync::Arc<Self>) {
        self.wake_by_ref();
    }
    fn wake_by_ref(self: &std::sync::Arc<Self>) {
        self.woken.store(true, std::sync::atomic::Ordering::SeqCst);
        let w = self.inner.lock().unwrap().clone();
        if let Some(w) = w {
            w.wake();
        }
    }
}

/// Polls the inner future with a waker of its own and counts a poll that follows a wake-up of that waker as
/// progress of the shard.
struct WakeCounted<F> {
    fut: Pin<Box<F>>,
    flag: std::sync::Arc<WakeFlag>,
}

impl<F: Future> WakeCounted<F> {
    fn new(fut: F) -> Self {
        Self { fut: Box::pin(fut), flag: std::sync::Arc::new(WakeFlag { woken: std::sync::atomic::AtomicBool::new(false), inner: std::sync::Mutex::new(None) }) }
    }
}

impl<F: Future> Future for WakeCounted<F> {
    type Output = F::Output;
    fn poll(mut self: Pin<&mut Self>, cx: &mut Context<'_>) -> Poll<Self::Output> {
        *self.flag.inner.lock().unwrap() = Some(cx.waker().clone());
        if self.flag.woken.swap(false, std::sync::atomic::Ordering::SeqCst) {
            crate::simnet::bump_poll();
        }
        let waker = std::task::Waker::from(self.flag.clone());
        let mut cx2 = Context::from_waker(&waker);
        self.fut.as_mut().poll(&mut cx2)
    }
}
