//! Independent reference codec for the chmux wire protocol (version 3, and the id-less version-2 forms).
//!
//! Written from the documented layout, *without* calling into remoc:
//!
//! ```text
//!  code  message          body (all integers little endian)
//!   1    Reset            -
//!   2    Hello            "CHMUX\0", version u8, timeout_ms u64 (0 = none), chunk_size u32,
//!                         port_receive_buffer u32, connect_queue u16
//!   3    Ping             -
//!   4    OpenPort         client_port u32, flags u8 (1 = wait, 2 = id present), [id u32]
//!   5    PortOpened       client_port u32, server_port u32
//!   6    Rejected         client_port u32, flags u8 (1 = no_ports)
//!   7    Data             port u32, flags u8 (1 = first, 2 = last); payload = the following frame
//!   8    PortData         port u32, flags u8 (1 first, 2 last, 4 wait, 8 ids), then u32 ports or (port,id) pairs
//!   9    PortCredits      port u32, credits u32
//!  10    SendFinish       port u32
//!  11    ReceiveClose     port u32
//!  12    ReceiveFinish    port u32
//!  13    ClientFinish     -
//!  14    ListenerFinish   -
//!  15    Goodbye          -
//! ```
//!
//! The decoder is strict: unknown flag bits, trailing bytes, short frames and bad magic are errors.

use std::fmt;

#[derive(Clone, Debug, PartialEq, Eq)]
pub struct HelloCfg {
    pub timeout_ms: u64,
    pub chunk_size: u32,
    pub receive_buffer: u32,
    pub connect_queue: u16,
}

#[derive(Clone, Debug, PartialEq, Eq)]
pub enum Msg {
    Reset,
    Hello { version: u8, cfg: HelloCfg },
    Ping,
    OpenPort { client_port: u32, wait: bool, id: Option<u32> },
    PortOpened { client_port: u32, server_port: u32 },
    Rejected { client_port: u32, no_ports: bool },
    Data { port: u32, first: bool, last: bool },
    PortData { port: u32, first: bool, last: bool, wait: bool, ports: Vec<u32>, ids: Option<Vec<u32>> },
    PortCredits { port: u32, credits: u32 },
    SendFinish { port: u32 },
    ReceiveClose { port: u32 },
    ReceiveFinish { port: u32 },
    ClientFinish,
    ListenerFinish,
    Goodbye,
}

impl Msg {
    pub fn kind(&self) -> &'static str {
        match self {
            Msg::Reset => "Reset",
            Msg::Hello { .. } => "Hello",
            Msg::Ping => "Ping",
            Msg::OpenPort { .. } => "OpenPort",
            Msg::PortOpened { .. } => "PortOpened",
            Msg::Rejected { .. } => "Rejected",
            Msg::Data { .. } => "Data",
            Msg::PortData { .. } => "PortData",
            Msg::PortCredits { .. } => "PortCredits",
            Msg::SendFinish { .. } => "SendFinish",
            Msg::ReceiveClose { .. } => "ReceiveClose",
            Msg::ReceiveFinish { .. } => "ReceiveFinish",
            Msg::ClientFinish => "ClientFinish",
            Msg::ListenerFinish => "ListenerFinish",
            Msg::Goodbye => "Goodbye",
        }
    }

    pub fn code(&self) -> u8 {
        match self {
            Msg::Reset => 1,
            Msg::Hello { .. } => 2,
            Msg::Ping => 3,
            Msg::OpenPort { .. } => 4,
            Msg::PortOpened { .. } => 5,
            Msg::Rejected { .. } => 6,
            Msg::Data { .. } => 7,
            Msg::PortData { .. } => 8,
            Msg::PortCredits { .. } => 9,
            Msg::SendFinish { .. } => 10,
            Msg::ReceiveClose { .. } => 11,
            Msg::ReceiveFinish { .. } => 12,
            Msg::ClientFinish => 13,
            Msg::ListenerFinish => 14,
            Msg::Goodbye => 15,
        }
    }

    /// The flag byte of the message, if it has one.
    pub fn flags(&self) -> Option<u8> {
        match self {
            Msg::OpenPort { wait, id, .. } => Some(u8::from(*wait) | (u8::from(id.is_some()) << 1)),
            Msg::Rejected { no_ports, .. } => Some(u8::from(*no_ports)),
            Msg::Data { first, last, .. } => Some(u8::from(*first) | (u8::from(*last) << 1)),
            Msg::PortData { first, last, wait, ids, .. } => Some(
                u8::from(*first) | (u8::from(*last) << 1) | (u8::from(*wait) << 2) | (u8::from(ids.is_some()) << 3),
            ),
            _ => None,
        }
    }
}

#[derive(Clone, Debug, PartialEq, Eq)]
pub struct DecodeError(pub String);

impl fmt::Display for DecodeError {
    fn fmt(&self, f: &mut fmt::Formatter) -> fmt::Result {
        write!(f, "{}", self.0)
    }
}

fn err<T>(s: impl Into<String>) -> Result<T, DecodeError> {
    Err(DecodeError(s.into()))
}

struct Rd<'a>(&'a [u8]);

impl<'a> Rd<'a> {
    fn u8(&mut self) -> Result<u8, DecodeError> {
        if self.0.is_empty() {
            return err("short frame (u8)");
        }
        let v = self.0[0];
        self.0 = &self.0[1..];
        Ok(v)
    }
    fn u16(&mut self) -> Result<u16, DecodeError> {
        if self.0.len() < 2 {
            return err("short frame (u16)");
        }
        let v = u16::from_le_bytes([self.0[0], self.0[1]]);
        self.0 = &self.0[2..];
        Ok(v)
    }
    fn u32(&mut self) -> Result<u32, DecodeError> {
        if self.0.len() < 4 {
            return err("short frame (u32)");
        }
        let v = u32::from_le_bytes([self.0[0], self.0[1], self.0[2], self.0[3]]);
        self.0 = &self.0[4..];
        Ok(v)
    }
    fn u64(&mut self) -> Result<u64, DecodeError> {
        if self.0.len() < 8 {
            return err("short frame (u64)");
        }
        let mut b = [0u8; 8];
        b.copy_from_slice(&self.0[..8]);
        self.0 = &self.0[8..];
        Ok(u64::from_le_bytes(b))
    }
    fn end(&self) -> Result<(), DecodeError> {
        if self.0.is_empty() { Ok(()) } else { err(format!("{} trailing bytes", self.0.len())) }
    }
}

pub const MAGIC: &[u8; 6] = b"CHMUX\0";

/// Strictly decodes one message frame.
pub fn decode(frame: &[u8]) -> Result<Msg, DecodeError> {
    let mut r = Rd(frame);
    let code = r.u8()?;
    let msg = match code {
        1 => Msg::Reset,
        2 => {
            if r.0.len() < 6 || &r.0[..6] != MAGIC {
                return err("bad magic");
            }
            r.0 = &r.0[6..];
            let version = r.u8()?;
            let timeout_ms = r.u64()?;
            let chunk_size = r.u32()?;
            let receive_buffer = r.u32()?;
            let connect_queue = r.u16()?;
            if chunk_size < 4 {
                return err("chunk_size < 4");
            }
            if receive_buffer < 4 {
                return err("receive_buffer < 4");
            }
            if connect_queue < 1 {
                return err("connect_queue < 1");
            }
            Msg::Hello { version, cfg: HelloCfg { timeout_ms, chunk_size, receive_buffer, connect_queue } }
        }
        3 => Msg::Ping,
        4 => {
            let client_port = r.u32()?;
            let flags = r.u8()?;
            if flags & !0b11 != 0 {
                return err(format!("OpenPort unknown flag bits {flags:#x}"));
            }
            let id = if flags & 2 != 0 { Some(r.u32()?) } else { None };
            Msg::OpenPort { client_port, wait: flags & 1 != 0, id }
        }
        5 => Msg::PortOpened { client_port: r.u32()?, server_port: r.u32()? },
        6 => {
            let client_port = r.u32()?;
            let flags = r.u8()?;
            if flags & !0b1 != 0 {
                return err(format!("Rejected unknown flag bits {flags:#x}"));
            }
            Msg::Rejected { client_port, no_ports: flags & 1 != 0 }
        }
        7 => {
            let port = r.u32()?;
            let flags = r.u8()?;
            if flags & !0b11 != 0 {
                return err(format!("Data unknown flag bits {flags:#x}"));
            }
            Msg::Data { port, first: flags & 1 != 0, last: flags & 2 != 0 }
        }
        8 => {
            let port = r.u32()?;
            let flags = r.u8()?;
            if flags & !0b1111 != 0 {
                return err(format!("PortData unknown flag bits {flags:#x}"));
            }
            let with_ids = flags & 8 != 0;
            let unit = if with_ids { 8 } else { 4 };
            if r.0.len() % unit != 0 {
                return err(format!("PortData body length {} not a multiple of {unit}", r.0.len()));
            }
            let mut ports = Vec::new();
            let mut ids = if with_ids { Some(Vec::new()) } else { None };
            while !r.0.is_empty() {
                ports.push(r.u32()?);
                if let Some(ids) = &mut ids {
                    ids.push(r.u32()?);
                }
            }
            Msg::PortData { port, first: flags & 1 != 0, last: flags & 2 != 0, wait: flags & 4 != 0, ports, ids }
        }
        9 => Msg::PortCredits { port: r.u32()?, credits: r.u32()? },
        10 => Msg::SendFinish { port: r.u32()? },
        11 => Msg::ReceiveClose { port: r.u32()? },
        12 => Msg::ReceiveFinish { port: r.u32()? },
        13 => Msg::ClientFinish,
        14 => Msg::ListenerFinish,
        15 => Msg::Goodbye,
        c => return err(format!("unknown message code {c}")),
    };
    r.end()?;
    Ok(msg)
}

/// Encodes one message frame.
pub fn encode(msg: &Msg) -> Vec<u8> {
    let mut v = vec![msg.code()];
    match msg {
        Msg::Reset | Msg::Ping | Msg::ClientFinish | Msg::ListenerFinish | Msg::Goodbye => {}
        Msg::Hello { version, cfg } => {
            v.extend_from_slice(MAGIC);
            v.push(*version);
            v.extend_from_slice(&cfg.timeout_ms.to_le_bytes());
            v.extend_from_slice(&cfg.chunk_size.to_le_bytes());
            v.extend_from_slice(&cfg.receive_buffer.to_le_bytes());
            v.extend_from_slice(&cfg.connect_queue.to_le_bytes());
        }
        Msg::OpenPort { client_port, id, .. } => {
            v.extend_from_slice(&client_port.to_le_bytes());
            v.push(msg.flags().unwrap());
            if let Some(id) = id {
                v.extend_from_slice(&id.to_le_bytes());
            }
        }
        Msg::PortOpened { client_port, server_port } => {
            v.extend_from_slice(&client_port.to_le_bytes());
            v.extend_from_slice(&server_port.to_le_bytes());
        }
        Msg::Rejected { client_port, .. } => {
            v.extend_from_slice(&client_port.to_le_bytes());
            v.push(msg.flags().unwrap());
        }
        Msg::Data { port, .. } => {
            v.extend_from_slice(&port.to_le_bytes());
            v.push(msg.flags().unwrap());
        }
        Msg::PortData { port, ports, ids, .. } => {
            v.extend_from_slice(&port.to_le_bytes());
            v.push(msg.flags().unwrap());
            match ids {
                Some(ids) => {
                    for (p, i) in ports.iter().zip(ids) {
                        v.extend_from_slice(&p.to_le_bytes());
                        v.extend_from_slice(&i.to_le_bytes());
                    }
                }
                None => {
                    for p in ports {
                        v.extend_from_slice(&p.to_le_bytes());
                    }
                }
            }
        }
        Msg::PortCredits { port, credits } => {
            v.extend_from_slice(&port.to_le_bytes());
            v.extend_from_slice(&credits.to_le_bytes());
        }
        Msg::SendFinish { port } | Msg::ReceiveClose { port } | Msg::ReceiveFinish { port } => {
            v.extend_from_slice(&port.to_le_bytes());
        }
    }
    v
}

#[cfg(test)]
mod tests {
    use super::*;

    #[test]
    fn roundtrip() {
        let msgs = vec![
            Msg::Reset,
            Msg::Hello {
                version: 3,
                cfg: HelloCfg { timeout_ms: 60000, chunk_size: 16384, receive_buffer: 524288, connect_queue: 128 },
            },
            Msg::OpenPort { client_port: 7, wait: true, id: Some(9) },
            Msg::OpenPort { client_port: 7, wait: false, id: None },
            Msg::PortData { port: 1, first: true, last: false, wait: true, ports: vec![1, 2], ids: Some(vec![3, 4]) },
            Msg::PortData { port: 1, first: true, last: true, wait: false, ports: vec![1, 2], ids: None },
            Msg::Data { port: 5, first: false, last: true },
            Msg::PortCredits { port: 5, credits: 99 },
            Msg::Goodbye,
        ];
        for m in msgs {
            assert_eq!(decode(&encode(&m)).unwrap(), m);
        }
        assert!(decode(&[7, 0, 0, 0, 0, 4]).is_err());
        assert!(decode(&[3, 0]).is_err());
        assert!(decode(&[16]).is_err());
    }
}
