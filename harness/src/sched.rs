//! Schedule and cancellation diversity: H1 driver, CancelAt, PollCount, operation registry.

use std::{
    future::Future,
    pin::Pin,
    sync::{Arc, Mutex},
    task::{Context, Poll},
};

use crate::{rng::Rng, simnet::{bump_poll, bump_progress}};

/// Installs the H1 decision closure on this thread: every poll of an internally spawned remoc task is
/// deferred with probability `pct`/100 (tasks whose id is ≡ 0 mod `victim_mod` ten times as likely,
/// if `victim_mod` > 0). Non-deferred polls count as progress.
pub fn install_h1(mut rng: Rng, pct: u64, victim_mod: u64) {
    remoc::exec::verif::set_defer(Some(Box::new(move |_site, id, _n| {
        let p = if victim_mod > 0 && id % victim_mod == 0 { (pct * 10).min(90) } else { pct };
        let defer = p > 0 && rng.below(100) < p;
        if !defer {
            bump_poll();
        }
        defer
    })));
}

pub fn uninstall_h1() {
    remoc::exec::verif::set_defer(None);
}

/// Polls the wrapped future at most `n` times, then drops it (between polls, as any `select!` or timeout
/// in user code does). Resolves to `None` if it was dropped before completing.
pub struct CancelAt<F> {
    fut: Option<Pin<Box<F>>>,
    left: u32,
    pub polls: u32,
}

impl<F: Future> CancelAt<F> {
    pub fn new(fut: F, n: u32) -> Self {
        Self { fut: Some(Box::pin(fut)), left: n, polls: 0 }
    }
}

impl<F: Future> Future for CancelAt<F> {
    type Output = Option<F::Output>;
    fn poll(mut self: Pin<&mut Self>, cx: &mut Context<'_>) -> Poll<Self::Output> {
        let this = &mut *self;
        if this.left == 0 {
            this.fut = None;
            return Poll::Ready(None);
        }
        this.left -= 1;
        this.polls += 1;
        match this.fut.as_mut().unwrap().as_mut().poll(cx) {
            Poll::Ready(v) => {
                this.fut = None;
                Poll::Ready(Some(v))
            }
            Poll::Pending => {
                if this.left == 0 {
                    this.fut = None;
                    Poll::Ready(None)
                } else {
                    Poll::Pending
                }
            }
        }
    }
}

/// Polls a pinned future at most `n` times and then leaves it alone (alive, unpolled): resolves to
/// `Some(output)` if it completed within those polls.
pub struct PollSome<'a, F: Future> {
    pub fut: Pin<&'a mut F>,
    pub left: u32,
}

impl<F: Future> Future for PollSome<'_, F> {
    type Output = Option<F::Output>;
    fn poll(mut self: Pin<&mut Self>, cx: &mut Context<'_>) -> Poll<Self::Output> {
        if self.left == 0 {
            return Poll::Ready(None);
        }
        self.left -= 1;
        match self.fut.as_mut().poll(cx) {
            Poll::Ready(v) => Poll::Ready(Some(v)),
            Poll::Pending if self.left == 0 => Poll::Ready(None),
            Poll::Pending => Poll::Pending,
        }
    }
}

/// Counts the polls a future needs.
pub struct PollCount<F> {
    fut: Pin<Box<F>>,
    polls: u32,
}

impl<F: Future> PollCount<F> {
    pub fn new(fut: F) -> Self {
        Self { fut: Box::pin(fut), polls: 0 }
    }
}

impl<F: Future> Future for PollCount<F> {
    type Output = (F::Output, u32);
    fn poll(mut self: Pin<&mut Self>, cx: &mut Context<'_>) -> Poll<Self::Output> {
        let this = &mut *self;
        this.polls += 1;
        match this.fut.as_mut().poll(cx) {
            Poll::Ready(v) => Poll::Ready((v, this.polls)),
            Poll::Pending => Poll::Pending,
        }
    }
}

#[derive(Clone, Debug)]
pub struct OpRec {
    pub name: String,
    pub done: bool,
    pub result: Option<String>,
}

/// Registry of API operations started by the harness, so that the pending set at quiescence is known.
#[derive(Clone, Default)]
pub struct Ops {
    inner: Arc<Mutex<Vec<OpRec>>>,
}

impl Ops {
    pub fn new() -> Self {
        Self::default()
    }

    pub fn begin(&self, name: impl Into<String>) -> usize {
        let mut g = self.inner.lock().unwrap();
        g.push(OpRec { name: name.into(), done: false, result: None });
        bump_progress();
        g.len() - 1
    }

    pub fn end(&self, id: usize, result: impl Into<String>) {
        let mut g = self.inner.lock().unwrap();
        g[id].done = true;
        g[id].result = Some(result.into());
        bump_progress();
    }

    /// Runs `fut` as a tracked operation inside the current task.
    pub async fn track<T>(&self, name: impl Into<String>, fut: impl Future<Output = T>, res: impl FnOnce(&T) -> String) -> T {
        let id = self.begin(name);
        let out = fut.await;
        self.end(id, res(&out));
        out
    }

    pub fn pending(&self) -> Vec<String> {
        self.inner.lock().unwrap().iter().filter(|o| !o.done).map(|o| o.name.clone()).collect()
    }

    pub fn all(&self) -> Vec<OpRec> {
        self.inner.lock().unwrap().clone()
    }
}

/// Future wrapper that counts every poll as progress (so that quiescence detection sees harness tasks
/// and dispatcher tasks working).
pub struct Counted<F> {
    fut: Pin<Box<F>>,
}

impl<F: Future> Future for Counted<F> {
    type Output = F::Output;
    fn poll(mut self: Pin<&mut Self>, cx: &mut Context<'_>) -> Poll<Self::Output> {
        bump_poll();
        self.fut.as_mut().poll(cx)
    }
}

pub fn counted<F: Future>(fut: F) -> Counted<F> {
    Counted { fut: Box::pin(fut) }
}

/// `tokio::spawn` of a poll-counted future.
pub fn spawn<F>(fut: F) -> tokio::task::JoinHandle<F::Output>
where
    F: Future + Send + 'static,
    F::Output: Send + 'static,
{
    tokio::spawn(counted(fut))
}
