//! C09 Wire format of protocol version 3 is stable and version-negotiated.
//!
//! The harness is the peer (reference codec, version 2 or 3) of one real endpoint. A scripted conversation
//! forces every message kind and flag combination in both directions and checks (emit) that what the real
//! endpoint puts on the wire decodes strictly to what the triggering API action implies and (accept) that
//! reference-encoded frames are understood as intended.

use bytes::Bytes;
use remoc::chmux::{ChMux, ConnectError, PortReq, Received, SendError};
use serde_json::json;
use std::time::Duration;

use super::common::*;
use crate::{
    clock::{or_quiescent, run_virtual, settle},
    evidence::RunOut,
    peer::{Peer, PeerRecv, real_vs_peer},
    refcodec::{HelloCfg, Msg},
    rng::{Fnv, Rng, payload},
    simnet::NetCfg,
};

struct Chk<'a> {
    out: &'a mut RunOut,
    replay: serde_json::Value,
    ver: u8,
    net: Option<std::sync::Arc<crate::simnet::Net>>,
}

impl Chk<'_> {
    fn fail(&mut self, step: &str, detail: String) {
        let mut rp = self.replay.clone();
        rp["step"] = json!(step);
        if let Some(n) = &self.net {
            rp["trace_tail"] = n.trace_json(40);
        }
        self.out.viol(format!("C09:{step}"), detail, rp);
    }
    fn emit_cell(&mut self, m: &Msg) {
        self.out.item("cells", format!("emit:{}:{}:v{}", m.kind(), m.flags().unwrap_or(0), self.ver));
    }
    fn accept_cell(&mut self, m: &Msg) {
        self.out.item("cells", format!("accept:{}:{}:v{}", m.kind(), m.flags().unwrap_or(0), self.ver));
    }
}

fn boundary_port(rng: &mut Rng) -> u32 {
    match rng.below(6) {
        0 => 0,
        1 => 1,
        2 => 0x7fff_ffff,
        3 => 0xffff_ffff,
        4 => 0x0102_0304,
        _ => rng.next() as u32,
    }
}

async fn expect_msg(peer: &mut Peer, chk: &mut Chk<'_>, step: &str, pred: impl FnMut(&Msg) -> bool) -> Option<(Msg, Option<Bytes>)> {
    let (got, skipped) = peer.recv_until(pred).await;
    for s in &skipped {
        match s {
            PeerRecv::Undecodable(b, e) => chk.fail("emit-undecodable", format!("{step}: real endpoint emitted a frame the reference decoder rejects: {e} ({})", crate::simnet::hex(b, 32))),
            PeerRecv::Msg(m, _) => chk.emit_cell(m),
            _ => {}
        }
    }
    match got {
        Some((m, p)) => {
            chk.emit_cell(&m);
            Some((m, p))
        }
        None => {
            chk.fail(step, format!("{step}: expected frame was not emitted by quiescence; got instead {skipped:?}"));
            None
        }
    }
}

pub fn run_one(run: u64, seed: u64) -> RunOut {
    let mut rng = Rng::new(seed);
    let ver: u8 = *rng.pick(&[3u8, 3, 2]);
    let with_timeout = rng.chance(25);
    let mut cfg_r = small_cfg(&mut rng, None);
    cfg_r.max_ports = 64;
    cfg_r.connect_queue = *rng.pick(&[1u16, 2, 16, 0xffff]);
    cfg_r.chunk_size = *rng.pick(&[4u32, 8, 16, 64, 1024, 0xffff_ffef]);
    cfg_r.receive_buffer = *rng.pick(&[16u32, 64, 100, 4096, 0xffff_ffff]);
    cfg_r.max_data_size = 4096;
    if with_timeout {
        cfg_r.connection_timeout = Some(Duration::from_millis(*rng.pick(&[30_000u64, 3_600_000, 0x0102_0304_0506])));
    }
    let pcfg = HelloCfg {
        timeout_ms: if with_timeout { 20_000 } else { 0 },
        chunk_size: *rng.pick(&[4u32, 5, 8, 16, 64, 4096]),
        receive_buffer: *rng.pick(&[16u32, 17, 64, 256, 65536]),
        connect_queue: *rng.pick(&[1u16, 2, 16, 1000]),
    };
    let replay = json!({"run": run, "seed": seed, "peer_version": ver, "cfg_real": cfg_json(&cfg_r),
        "peer_hello": format!("{pcfg:?}")});
    let mut out = RunOut::default();
    let panics0 = crate::mem::panic_count();
    let prefix = crate::clock::thread_prefix();
    crate::sched::install_h1(rng.fork(1), 0, 0);

    run_virtual(seed, async {
        let (real, mut peer) = real_vs_peer(NetCfg::default(), &cfg_r, &pcfg);
        let mut chk = Chk { out: &mut out, replay: replay.clone(), ver, net: Some(peer.net.clone()) };
        let (rs, rr) = real;

        // ---- handshake ----
        let (res, _) = tokio::join!(or_quiescent(ChMux::new(cfg_r.clone(), rs, rr)), peer.handshake_send(ver, &pcfg));
        let (mux, client, mut listener) = match res {
            Some(Ok(x)) => x,
            Some(Err(e)) => {
                chk.fail("accept-hello", format!("real endpoint rejected a well-formed v{ver} Hello {pcfg:?}: {e}"));
                return;
            }
            None => {
                chk.fail("accept-hello", format!("handshake with a well-formed v{ver} Hello {pcfg:?} did not complete"));
                return;
            }
        };
        chk.accept_cell(&Msg::Reset);
        chk.accept_cell(&Msg::Hello { version: ver, cfg: pcfg.clone() });
        match peer.recv().await {
            PeerRecv::Msg(Msg::Reset, _) => chk.emit_cell(&Msg::Reset),
            other => chk.fail("emit-handshake", format!("first frame is {other:?}, expected Reset")),
        }
        let exp_hello = Msg::Hello {
            version: 3,
            cfg: HelloCfg {
                timeout_ms: cfg_r.connection_timeout.map(|d| d.as_millis() as u64).unwrap_or(0),
                chunk_size: cfg_r.chunk_size,
                receive_buffer: cfg_r.receive_buffer,
                connect_queue: cfg_r.connect_queue,
            },
        };
        match peer.recv().await {
            PeerRecv::Msg(m, _) if m == exp_hello => chk.emit_cell(&m),
            other => chk.fail("emit-handshake", format!("second frame is {other:?}, expected {exp_hello:?}")),
        }
        let run_task = crate::sched::spawn(mux.run());

        // ---- (2) peer opens a port ----
        let c1 = boundary_port(&mut rng);
        let id1 = if ver >= 3 { Some(rng.next() as u32) } else { None };
        let wait1 = rng.chance(50);
        let open = Msg::OpenPort { client_port: c1, wait: wait1, id: id1 };
        peer.send(&open).await;
        let req = match or_quiescent(listener.inspect()).await {
            Some(Ok(Some(r))) => r,
            other => {
                chk.fail("accept-openport", format!("listener did not deliver the request for {open:?}: {:?}", other.map(|r| r.map(|o| o.is_some()))));
                return;
            }
        };
        if req.remote_port() != c1 || req.id() != id1.unwrap_or(c1) || req.is_wait() != wait1 {
            chk.fail("accept-openport", format!("{open:?} was understood as remote_port={} id={} wait={}", req.remote_port(), req.id(), req.is_wait()));
        } else {
            chk.accept_cell(&open);
        }
        let acc = crate::sched::spawn(req.accept());
        let s1 = match expect_msg(&mut peer, &mut chk, "emit-portopened", |m| matches!(m, Msg::PortOpened { .. })).await {
            Some((Msg::PortOpened { client_port, server_port }, _)) => {
                if client_port != c1 {
                    chk.fail("emit-portopened", format!("PortOpened names client port {client_port}, request was for {c1}"));
                }
                server_port
            }
            _ => return,
        };
        let (mut tx, mut rx) = match or_quiescent(acc).await {
            Some(Ok(Ok(p))) => p,
            _ => {
                chk.fail("emit-portopened", "accept did not complete".into());
                return;
            }
        };
        if tx.local_port() != s1 || tx.remote_port() != c1 || rx.local_port() != s1 || rx.remote_port() != c1 {
            chk.fail("emit-portopened", format!("port pair on the wire ({c1},{s1}) but API reports local {} remote {}", tx.local_port(), tx.remote_port()));
        }

        // ---- (3) peer -> real data, all first/last combinations ----
        let budget = (cfg_r.receive_buffer as usize).min(600);
        let chunk = (cfg_r.chunk_size as usize).min(64);
        // aborted message first: its chunk must not reach the application
        let junk = payload(999, chunk.min(budget / 4).max(1));
        peer.send_data(s1, true, false, &junk).await;
        chk.accept_cell(&Msg::Data { port: s1, first: true, last: false });
        let mut used = junk.len().max(1);
        let n_chunks = 1 + rng.usize_below(4);
        let mut msg_in = Vec::new();
        let mut sent_ok = true;
        for i in 0..n_chunks {
            let l = rng.usize_below(chunk + 1).min(budget.saturating_sub(used + 8));
            let p = payload(2000 + i as u64, l);
            used += l.max(1);
            msg_in.extend_from_slice(&p);
            let (f, la) = (i == 0, i == n_chunks - 1);
            sent_ok &= peer.send_data(s1, f, la, &p).await;
            chk.accept_cell(&Msg::Data { port: s1, first: f, last: la });
        }
        let got = or_quiescent(async {
            match rx.recv_any().await {
                Ok(Some(Received::Data(d))) => Some(Vec::from(d)),
                Ok(Some(Received::Chunks)) => {
                    let mut v = Vec::new();
                    while let Ok(Some(c)) = rx.recv_chunk().await {
                        v.extend_from_slice(&c);
                    }
                    Some(v)
                }
                _ => None,
            }
        })
        .await
        .flatten();
        if !sent_ok || got.as_deref() != Some(&msg_in[..]) {
            chk.fail(
                "accept-data",
                format!("reference-encoded message of {} bytes in {n_chunks} chunks (after an aborted first chunk) was received as {:?}", msg_in.len(), got.map(|g| g.len())),
            );
        }

        // ---- (4) real -> peer data ----
        let l2 = *rng.pick(&[0usize, 1, 3, pcfg.chunk_size as usize, pcfg.chunk_size as usize + 1, pcfg.chunk_size as usize * 3 + 1, pcfg.receive_buffer as usize + 9]);
        let l2 = l2.min(3000);
        let msg_out = payload(3000, l2);
        let mo = msg_out.clone();
        let send_task = crate::sched::spawn(async move {
            let r = tx.send(Bytes::from(mo)).await;
            crate::simnet::bump_progress();
            (r, tx)
        });
        let mut assembled = Vec::new();
        let mut started = false;
        let mut finished = false;
        let mut unacked: u64 = 0;
        for _ in 0..10_000 {
            match peer.recv().await {
                PeerRecv::Msg(Msg::Data { port, first, last }, Some(p)) => {
                    chk.emit_cell(&Msg::Data { port, first, last });
                    if port != c1 {
                        chk.fail("emit-data", format!("Data names port {port}, the receiving side's port is {c1}"));
                    }
                    if p.len() > pcfg.chunk_size as usize {
                        chk.fail("emit-data", format!("payload of {} bytes > announced chunk size {}", p.len(), pcfg.chunk_size));
                    }
                    if first != !started {
                        chk.fail("emit-data", format!("first flag is {first} on chunk #{} of the message", if started { "n" } else { "0" }));
                    }
                    started = true;
                    assembled.extend_from_slice(&p);
                    unacked += (p.len() as u64).max(1);
                    if last {
                        finished = true;
                        break;
                    }
                }
                PeerRecv::Msg(m @ Msg::PortCredits { .. }, _) => {
                    chk.emit_cell(&m);
                    if let Msg::PortCredits { port, .. } = m {
                        if port != c1 {
                            chk.fail("emit-portcredits", format!("PortCredits names port {port}, the receiving side's port is {c1}"));
                        }
                    }
                }
                PeerRecv::Msg(m, _) => chk.emit_cell(&m),
                PeerRecv::Quiet => {
                    if unacked == 0 {
                        break;
                    }
                    let cr = Msg::PortCredits { port: s1, credits: unacked as u32 };
                    peer.send(&cr).await;
                    chk.accept_cell(&cr);
                    unacked = 0;
                }
                PeerRecv::Undecodable(b, e) => {
                    chk.fail("emit-undecodable", format!("data phase: {e} ({})", crate::simnet::hex(&b, 32)));
                    break;
                }
                _ => break,
            }
        }
        if !finished || assembled != msg_out {
            chk.fail("emit-data", format!("send({l2} bytes) arrived on the wire as {} bytes, finished={finished}", assembled.len()));
        }
        if unacked > 0 {
            let cr = Msg::PortCredits { port: s1, credits: unacked as u32 };
            peer.send(&cr).await;
            chk.accept_cell(&cr);
        }
        let mut tx = match or_quiescent(send_task).await {
            Some(Ok((Ok(()), tx))) => tx,
            other => {
                chk.fail("accept-portcredits", format!("send did not complete although credits were granted: {:?}", other.map(|r| r.map(|x| x.0))));
                return;
            }
        };

        // ---- (5) real endpoint's client connects ----
        for round in 0..2 {
            let w2 = rng.chance(50);
            let cl = client.clone();
            let ct = crate::sched::spawn(async move {
                match cl.connect_ext(None, w2).await {
                    Ok(c) => c.await,
                    Err(e) => Err(e),
                }
            });
            let c2 = match expect_msg(&mut peer, &mut chk, "emit-openport", |m| matches!(m, Msg::OpenPort { .. })).await {
                Some((Msg::OpenPort { client_port, wait, id }, _)) => {
                    if wait != w2 {
                        chk.fail("emit-openport", format!("connect_ext(wait={w2}) emitted wait={wait}"));
                    }
                    let want = if ver >= 3 { Some(client_port) } else { None };
                    if id != want {
                        chk.fail("emit-openport", format!("peer announced v{ver}: OpenPort carries id {id:?}, expected {want:?}"));
                    }
                    client_port
                }
                _ => return,
            };
            let choice = (round + rng.below(3)) % 3;
            let s2 = boundary_port(&mut rng);
            let resp = match choice {
                0 => Msg::PortOpened { client_port: c2, server_port: s2 },
                1 => Msg::Rejected { client_port: c2, no_ports: false },
                _ => Msg::Rejected { client_port: c2, no_ports: true },
            };
            peer.send(&resp).await;
            let r = or_quiescent(ct).await;
            let ok = match (&r, choice) {
                (Some(Ok(Ok((t, rcv)))), 0) => t.local_port() == c2 && t.remote_port() == s2 && rcv.remote_port() == s2,
                (Some(Ok(Err(ConnectError::Rejected))), 1) => true,
                (Some(Ok(Err(ConnectError::RemotePortsExhausted))), 2) => true,
                _ => false,
            };
            if ok {
                chk.accept_cell(&resp);
            } else {
                chk.fail("accept-response", format!("{resp:?} was understood as {:?}", r.as_ref().map(|x| x.as_ref().map(|y| y.as_ref().map(|(t, _)| (t.local_port(), t.remote_port())).map_err(|e| e.to_string())).map_err(|e| e.to_string()))));
            }
            if let Some(Ok(Ok((t, rcv)))) = r {
                // close that pair again from both sides
                drop(t);
                drop(rcv);
                let mut seen = 0;
                for _ in 0..4 {
                    match peer.recv().await {
                        PeerRecv::Msg(m @ (Msg::SendFinish { .. } | Msg::ReceiveFinish { .. }), _) => {
                            chk.emit_cell(&m);
                            let p = match m {
                                Msg::SendFinish { port } | Msg::ReceiveFinish { port } => port,
                                _ => 0,
                            };
                            if p != s2 {
                                chk.fail("emit-finish", format!("{m:?} names port {p}, the receiving side's port is {s2}"));
                            }
                            seen += 1;
                            if seen == 2 {
                                break;
                            }
                        }
                        PeerRecv::Msg(m, _) => chk.emit_cell(&m),
                        _ => break,
                    }
                }
                peer.send(&Msg::SendFinish { port: c2 }).await;
                peer.send(&Msg::ReceiveFinish { port: c2 }).await;
            }
        }

        // ---- (6) real endpoint sends ports over the port ----
        let k = 1 + rng.usize_below(5);
        let w3 = rng.chance(50);
        let alloc = tx.port_allocator();
        let mut reqs = Vec::new();
        let mut want_ports = Vec::new();
        let mut want_ids = Vec::new();
        for _ in 0..k {
            let p = alloc.try_allocate().unwrap();
            let id = rng.next() as u32;
            want_ports.push(*p);
            want_ids.push(id);
            reqs.push(PortReq::new(p).with_id(id));
        }
        let ct = crate::sched::spawn(async move {
            let r = tx.connect(reqs, w3).await;
            crate::simnet::bump_progress();
            (r, tx)
        });
        let mut got_ports = Vec::new();
        let mut got_ids: Vec<u32> = Vec::new();
        let mut pd_first = true;
        let mut unacked: u64 = 0;
        for _ in 0..200 {
            match peer.recv().await {
                PeerRecv::Msg(m @ Msg::PortData { .. }, _) => {
                    chk.emit_cell(&m);
                    if let Msg::PortData { port, first, last, wait, ports, ids } = m {
                        if port != c1 {
                            chk.fail("emit-portdata", format!("PortData names port {port}, the receiving side's port is {c1}"));
                        }
                        if wait != w3 {
                            chk.fail("emit-portdata", format!("connect(wait={w3}) emitted wait={wait}"));
                        }
                        if first != pd_first {
                            chk.fail("emit-portdata", format!("first flag {first} on frame where first should be {pd_first}"));
                        }
                        pd_first = false;
                        if (ver >= 3) != ids.is_some() {
                            chk.fail("emit-portdata", format!("peer announced v{ver} but ids present = {}", ids.is_some()));
                        }
                        if 4 * ports.len() > pcfg.chunk_size as usize {
                            chk.fail("emit-portdata", format!("{} ports in one frame > chunk size {}", ports.len(), pcfg.chunk_size));
                        }
                        unacked += 4 * ports.len() as u64;
                        got_ports.extend_from_slice(&ports);
                        if let Some(ids) = ids {
                            got_ids.extend_from_slice(&ids);
                        }
                        if last {
                            break;
                        }
                    }
                }
                PeerRecv::Msg(m, _) => chk.emit_cell(&m),
                PeerRecv::Quiet => {
                    if unacked == 0 {
                        break;
                    }
                    peer.send(&Msg::PortCredits { port: s1, credits: unacked as u32 }).await;
                    unacked = 0;
                }
                _ => break,
            }
        }
        if unacked > 0 {
            peer.send(&Msg::PortCredits { port: s1, credits: unacked as u32 }).await;
        }
        if got_ports != want_ports || (ver >= 3 && got_ids != want_ids) {
            chk.fail("emit-portdata", format!("connect({want_ports:?} ids {want_ids:?}) arrived as ports {got_ports:?} ids {got_ids:?}"));
        }
        // answer them: accept the first, reject the others
        for (i, p) in got_ports.iter().enumerate() {
            let resp = if i == 0 { Msg::PortOpened { client_port: *p, server_port: 0x1000 + i as u32 } } else { Msg::Rejected { client_port: *p, no_ports: i % 2 == 0 } };
            peer.send(&resp).await;
        }
        let (connects, mut tx) = match or_quiescent(ct).await {
            Some(Ok((Ok(c), tx))) => (c, tx),
            _ => {
                chk.fail("emit-portdata", "Sender::connect did not complete".into());
                return;
            }
        };
        let mut kept = Vec::new();
        for (i, c) in connects.into_iter().enumerate() {
            let r = or_quiescent(c).await;
            let ok = match (&r, i) {
                (Some(Ok(_)), 0) => true,
                (Some(Err(ConnectError::Rejected)), i) if i > 0 && i % 2 == 1 => true,
                (Some(Err(ConnectError::RemotePortsExhausted)), i) if i > 0 && i % 2 == 0 => true,
                _ => false,
            };
            if !ok {
                chk.fail("accept-response", format!("response #{i} to a port sent over a port was understood as {:?}", r.as_ref().map(|x| x.as_ref().map(|_| ()).map_err(|e| e.to_string()))));
            }
            if let Some(Ok(p)) = r {
                kept.push(p);
            }
        }

        // ---- (7) peer sends ports over the port ----
        let with_ids = ver >= 3 || rng.chance(0);
        let pp: Vec<u32> = vec![boundary_port(&mut rng) ^ 0x5555, 0x2000_0001, 0x2000_0002];
        let pids: Vec<u32> = vec![7, 0xffff_ffff, 0];
        let w4 = rng.chance(50);
        let split = rng.chance(50) && cfg_r.chunk_size >= 8;
        let frames: Vec<Msg> = if split {
            vec![
                Msg::PortData { port: s1, first: true, last: false, wait: w4, ports: pp[..1].to_vec(), ids: with_ids.then(|| pids[..1].to_vec()) },
                Msg::PortData { port: s1, first: false, last: false, wait: w4, ports: pp[1..2].to_vec(), ids: with_ids.then(|| pids[1..2].to_vec()) },
                Msg::PortData { port: s1, first: false, last: true, wait: w4, ports: pp[2..].to_vec(), ids: with_ids.then(|| pids[2..].to_vec()) },
            ]
        } else if cfg_r.chunk_size >= 12 {
            vec![Msg::PortData { port: s1, first: true, last: true, wait: w4, ports: pp.clone(), ids: with_ids.then(|| pids.clone()) }]
        } else {
            vec![
                Msg::PortData { port: s1, first: true, last: false, wait: w4, ports: pp[..1].to_vec(), ids: with_ids.then(|| pids[..1].to_vec()) },
                Msg::PortData { port: s1, first: false, last: false, wait: w4, ports: pp[1..2].to_vec(), ids: with_ids.then(|| pids[1..2].to_vec()) },
                Msg::PortData { port: s1, first: false, last: true, wait: w4, ports: pp[2..].to_vec(), ids: with_ids.then(|| pids[2..].to_vec()) },
            ]
        };
        for f in &frames {
            peer.send(f).await;
        }
        match or_quiescent(rx.recv_any()).await {
            Some(Ok(Some(Received::Requests(reqs)))) => {
                let seen: Vec<(u32, u32, bool)> = reqs.iter().map(|r| (r.remote_port(), r.id(), r.is_wait())).collect();
                let want: Vec<(u32, u32, bool)> = pp.iter().enumerate().map(|(i, p)| (*p, if with_ids { pids[i] } else { *p }, w4)).collect();
                if seen != want {
                    chk.fail("accept-portdata", format!("{frames:?} was understood as {seen:?}"));
                } else {
                    for f in &frames {
                        chk.accept_cell(f);
                    }
                }
                let mut it = reqs.into_iter();
                let r0 = it.next().unwrap();
                let r1 = it.next().unwrap();
                let r2 = it.next().unwrap();
                drop(r0); // dropped => Rejected no_ports=false
                r1.reject(true).await;
                let acc = crate::sched::spawn(r2.accept());
                let mut answers = Vec::new();
                for _ in 0..20 {
                    match peer.recv().await {
                        PeerRecv::Msg(m @ (Msg::Rejected { .. } | Msg::PortOpened { .. }), _) => {
                            chk.emit_cell(&m);
                            answers.push(m);
                            if answers.len() == 3 {
                                break;
                            }
                        }
                        PeerRecv::Msg(m, _) => chk.emit_cell(&m),
                        _ => break,
                    }
                }
                let a0 = answers.iter().any(|m| *m == Msg::Rejected { client_port: pp[0], no_ports: false });
                let a1 = answers.iter().any(|m| *m == Msg::Rejected { client_port: pp[1], no_ports: true });
                let a2 = answers.iter().find_map(|m| match m {
                    Msg::PortOpened { client_port, server_port } if *client_port == pp[2] => Some(*server_port),
                    _ => None,
                });
                if !(a0 && a1 && a2.is_some()) {
                    chk.fail("emit-response", format!("dropped/rejected(no_ports)/accepted requests for {pp:?} produced {answers:?}"));
                }
                if let Some(Ok(Ok(p))) = or_quiescent(acc).await {
                    if Some(p.0.local_port()) != a2 || p.0.remote_port() != pp[2] {
                        chk.fail("emit-response", "accepted pair numbers differ between API and wire".into());
                    }
                    kept.push(p);
                }
            }
            other => chk.fail("accept-portdata", format!("{frames:?} produced {:?}", other.map(|r| r.map(|o| o.is_some())))),
        }

        // ---- (8) close / finish on pair 1 ----
        rx.close().await;
        if let Some((Msg::ReceiveClose { port }, _)) = expect_msg(&mut peer, &mut chk, "emit-receiveclose", |m| matches!(m, Msg::ReceiveClose { .. })).await {
            if port != c1 {
                chk.fail("emit-receiveclose", format!("ReceiveClose names port {port}, expected {c1}"));
            }
        }
        let closed_fut = tx.closed();
        peer.send(&Msg::ReceiveClose { port: s1 }).await;
        let closed = or_quiescent(closed_fut).await.is_some();
        let r = or_quiescent(tx.send(Bytes::from_static(b"x"))).await;
        if !closed || !matches!(r, Some(Err(SendError::Closed { gracefully: true }))) {
            chk.fail("accept-receiveclose", format!("after ReceiveClose: closed()={closed}, send => {r:?}"));
        } else {
            chk.accept_cell(&Msg::ReceiveClose { port: s1 });
        }
        drop(tx);
        if let Some((Msg::SendFinish { port }, _)) = expect_msg(&mut peer, &mut chk, "emit-sendfinish", |m| matches!(m, Msg::SendFinish { .. })).await {
            if port != c1 {
                chk.fail("emit-sendfinish", format!("SendFinish names port {port}, expected {c1}"));
            }
        }
        peer.send(&Msg::SendFinish { port: s1 }).await;
        match or_quiescent(rx.recv_any()).await {
            Some(Ok(None)) => chk.accept_cell(&Msg::SendFinish { port: s1 }),
            other => chk.fail("accept-sendfinish", format!("after SendFinish recv_any => {:?}", other.map(|r| r.map(|o| o.is_some())))),
        }
        drop(rx);
        if let Some((Msg::ReceiveFinish { port }, _)) = expect_msg(&mut peer, &mut chk, "emit-receivefinish", |m| matches!(m, Msg::ReceiveFinish { .. })).await {
            if port != c1 {
                chk.fail("emit-receivefinish", format!("ReceiveFinish names port {port}, expected {c1}"));
            }
        }
        peer.send(&Msg::ReceiveFinish { port: s1 }).await;
        chk.accept_cell(&Msg::ReceiveFinish { port: s1 });

        // ---- ping (only with timeouts) ----
        if with_timeout {
            tokio::time::sleep(Duration::from_millis(10_500)).await;
            settle().await;
            let mut pinged = false;
            loop {
                match peer.recv().await {
                    PeerRecv::Msg(Msg::Ping, _) => {
                        chk.emit_cell(&Msg::Ping);
                        pinged = true;
                    }
                    PeerRecv::Msg(m, _) => chk.emit_cell(&m),
                    _ => break,
                }
            }
            if !pinged {
                chk.fail("emit-ping", "peer announced a 20 s timeout; no Ping within 10.5 s of silence".into());
            }
            peer.send(&Msg::Ping).await;
            chk.accept_cell(&Msg::Ping);
        }

        // ---- (9) orderly end ----
        // (local port on the real endpoint, port on the peer) of the pairs that are still open
        let kept_ports: Vec<(u32, u32)> = kept.iter().map(|(t, _)| (t.local_port(), t.remote_port())).collect();
        drop(kept);
        drop(client);
        drop(listener);
        let mut emitted = Vec::new();
        while let PeerRecv::Msg(m, _) = peer.recv().await {
            chk.emit_cell(&m);
            emitted.push(m);
        }
        for (_l, r) in &kept_ports {
            // frames name the port of the side that receives them: the peer's port number
            if !emitted.contains(&Msg::SendFinish { port: *r }) || !emitted.contains(&Msg::ReceiveFinish { port: *r }) {
                chk.fail("emit-finish", format!("dropping the pair (.., peer port {r}) did not emit SendFinish+ReceiveFinish for it: {emitted:?}"));
            }
        }
        if !emitted.contains(&Msg::ClientFinish) || !emitted.contains(&Msg::ListenerFinish) {
            chk.fail("emit-clientlistenerfinish", format!("dropping client and listener emitted {emitted:?}"));
        }
        if emitted.contains(&Msg::Goodbye) {
            chk.fail("emit-goodbye", "Goodbye emitted while the peer still has open ports, client and listener".into());
        }
        for (l, _r) in &kept_ports {
            peer.send(&Msg::SendFinish { port: *l }).await;
            peer.send(&Msg::ReceiveFinish { port: *l }).await;
        }
        peer.send(&Msg::ClientFinish).await;
        peer.send(&Msg::ListenerFinish).await;
        let mut bye = false;
        while let PeerRecv::Msg(m, _) = peer.recv().await {
            chk.emit_cell(&m);
            if m == Msg::Goodbye {
                bye = true;
            }
        }
        if !bye {
            chk.fail("emit-goodbye", "everything closed on both sides (by reference-encoded finish messages) but no Goodbye was emitted".into());
        } else {
            chk.accept_cell(&Msg::ClientFinish);
            chk.accept_cell(&Msg::ListenerFinish);
        }
        peer.send(&Msg::Goodbye).await;
        if let Some(v) = peer.net.with_mon(|m| m.violations.clone()) {
            for w in v.into_iter().take(2) {
                chk.fail("wire-monitor", format!("{} at frame {}: {}", w.code, w.seq, w.detail));
            }
        }
        match or_quiescent(run_task).await {
            Some(Ok(Ok(()))) => chk.accept_cell(&Msg::Goodbye),
            other => chk.fail("accept-goodbye", format!("dispatcher result after the Goodbye exchange: {:?}", other.map(|r| r.map(|x| x.map_err(|e| e.to_string()))))),
        }
    });

    crate::sched::uninstall_h1();
    for p in crate::mem::panics_since(&prefix, panics0) {
        let mut rp = replay.clone();
        rp["panic"] = json!({"thread": p.thread, "message": p.message, "location": p.location});
        out.viol("C09:panic", format!("panic at {}: {}", p.location, p.message), rp);
    }
    let mut h = Fnv::new();
    h.add_u64(seed);
    out.case_hash = Some(h.get());
    if run < 2 {
        out.sample = Some(replay);
    }
    out
}

/// Stream transport: `Connect::io` over a byte pipe with tiny pipe buffers (arbitrary fragmentation of reads
/// and writes). Frames must be prefixed by their length as u32 little endian in both directions.
pub fn run_stream(run: u64, seed: u64) -> RunOut {
    use tokio::io::{AsyncReadExt, AsyncWriteExt};
    let mut rng = Rng::new(seed ^ 0x5151);
    let mut cfg_r = small_cfg(&mut rng, None);
    cfg_r.chunk_size = *rng.pick(&[4u32, 16, 64, 1024]);
    let pcfg = HelloCfg { timeout_ms: 0, chunk_size: 64, receive_buffer: 256, connect_queue: 4 };
    let ver = 3u8;
    let pipe_buf = *rng.pick(&[1usize, 2, 3, 7, 64, 4096]);
    let replay = json!({"run": run, "seed": seed, "mode": "stream", "cfg_real": cfg_json(&cfg_r), "pipe_buffer": pipe_buf});
    let mut out = RunOut::default();
    crate::sched::install_h1(rng.fork(1), 0, 0);
    run_virtual(seed, async {
        let fail = |out: &mut RunOut, step: &str, d: String| {
            let mut rp = replay.clone();
            rp["step"] = json!(step);
            out.viol(format!("C09:stream-{step}"), d, rp);
        };
        let (real_side, peer_side) = tokio::io::duplex(pipe_buf);
        let (r_read, r_write) = tokio::io::split(real_side);
        let (mut p_read, mut p_write) = tokio::io::split(peer_side);
        let cfg2 = cfg_r.clone();
        let conn_task = crate::sched::spawn(async move {
            let r = remoc::Connect::io::<_, _, u32, u32, remoc::codec::Default>(cfg2, r_read, r_write).await;
            crate::simnet::bump_progress();
            match r {
                Ok((conn, tx, rx)) => {
                    // keep the dispatcher running
                    crate::sched::spawn(conn);
                    Ok((tx, rx))
                }
                Err(e) => Err(e),
            }
        });
        // writer: frames with LE length prefix, written in random fragments
        let mut wrng = rng.fork(3);
        let (ftx, mut frx) = tokio::sync::mpsc::unbounded_channel::<Vec<u8>>();
        let writer = crate::sched::spawn(async move {
            while let Some(f) = frx.recv().await {
                let mut bytes = (f.len() as u32).to_le_bytes().to_vec();
                bytes.extend_from_slice(&f);
                let mut i = 0;
                while i < bytes.len() {
                    let n = (1 + wrng.usize_below(5)).min(bytes.len() - i);
                    if p_write.write_all(&bytes[i..i + n]).await.is_err() {
                        return;
                    }
                    let _ = p_write.flush().await;
                    crate::simnet::bump_progress();
                    i += n;
                    if wrng.chance(30) {
                        tokio::task::yield_now().await;
                    }
                }
            }
        });
        let send = |m: &Msg| {
            let _ = ftx.send(crate::refcodec::encode(m));
        };
        send(&Msg::Reset);
        send(&Msg::Hello { version: ver, cfg: pcfg.clone() });
        // reader: parse LE length-prefixed frames
        let mut frames: Vec<Msg> = Vec::new();
        let mut opened = false;
        let mut answered = false;
        let mut steps = 0;
        loop {
            steps += 1;
            if steps > 200 {
                break;
            }
            let mut lenb = [0u8; 4];
            match or_quiescent(p_read.read_exact(&mut lenb)).await {
                Some(Ok(_)) => {}
                other => {
                    if std::env::var("HARNESS_DEBUG").is_ok() {
                        eprintln!("stream read loop ends: {:?} frames={frames:?} conn_finished={}", other.map(|r| r.map_err(|e| e.to_string())), conn_task.is_finished());
                    }
                    break;
                }
            }
            crate::simnet::bump_progress();
            let len = u32::from_le_bytes(lenb) as usize;
            if len > 16 + pcfg.chunk_size as usize {
                fail(&mut out, "length", format!("length prefix {len} ({lenb:02x?}) exceeds any frame the endpoint may send (16 + chunk size {})", pcfg.chunk_size));
                break;
            }
            let mut body = vec![0u8; len];
            match or_quiescent(p_read.read_exact(&mut body)).await {
                Some(Ok(_)) => {}
                _ => {
                    fail(&mut out, "length", format!("announced {len} bytes but the stream ended / stalled before they arrived"));
                    break;
                }
            }
            crate::simnet::bump_progress();
            match crate::refcodec::decode(&body) {
                Ok(m) => {
                    out.item("cells", format!("stream-emit:{}:{}", m.kind(), m.flags().unwrap_or(0)));
                    if let Msg::OpenPort { client_port, .. } = &m {
                        send(&Msg::PortOpened { client_port: *client_port, server_port: 77 });
                        answered = true;
                        if !opened {
                            send(&Msg::OpenPort { client_port: 99, wait: true, id: Some(99) });
                            opened = true;
                        }
                    }
                    frames.push(m);
                }
                Err(e) => {
                    fail(&mut out, "decode", format!("frame of {len} bytes is not a protocol message: {e} ({})", crate::simnet::hex(&body, 24)));
                    break;
                }
            }
        }
        settle().await;
        let exp_hello = Msg::Hello {
            version: 3,
            cfg: HelloCfg { timeout_ms: 0, chunk_size: cfg_r.chunk_size, receive_buffer: cfg_r.receive_buffer, connect_queue: cfg_r.connect_queue },
        };
        if frames.first() != Some(&Msg::Reset) || frames.get(1) != Some(&exp_hello) {
            fail(&mut out, "handshake", format!("first frames on the stream transport: {:?}", frames.iter().take(3).collect::<Vec<_>>()));
        }
        if !answered || !frames.iter().any(|m| matches!(m, Msg::PortOpened { client_port: 99, .. })) {
            fail(&mut out, "connect", format!("base channel connect over the stream transport did not exchange OpenPort/PortOpened: {frames:?}"));
        }
        match or_quiescent(conn_task).await {
            Some(Ok(Ok(_))) => out.count("stream_connects_ok", 1),
            other => fail(&mut out, "connect", format!("Connect::io fed with fragmented length-prefixed reference frames: {:?}", other.map(|r| r.map(|x| x.map(|_| ()).map_err(|e| e.to_string()))))),
        }
        drop(writer);
    });
    let mut h = Fnv::new();
    h.add_u64(seed);
    h.add_u64(1);
    out.case_hash = Some(h.get());
    out
}

/// Two real endpoints over byte pipes (`Connect::io` on both sides), any valid configuration pair:
/// the connection must come up and carry a value in each direction.
pub fn run_stream_pair(run: u64, seed: u64) -> RunOut {
    let mut rng = Rng::new(seed ^ 0x7272);
    let cfg_a = small_cfg(&mut rng, None);
    let cfg_b = small_cfg(&mut rng, None);
    let pipe_buf = *rng.pick(&[1usize, 3, 16, 4096]);
    let replay = json!({"run": run, "seed": seed, "mode": "stream-pair", "cfg_a": cfg_json(&cfg_a), "cfg_b": cfg_json(&cfg_b), "pipe_buffer": pipe_buf});
    let mut out = RunOut::default();
    crate::sched::install_h1(rng.fork(1), 0, 0);
    run_virtual(seed, async {
        let (a_to_b_w, a_to_b_r) = tokio::io::duplex(pipe_buf);
        let (b_to_a_w, b_to_a_r) = tokio::io::duplex(pipe_buf);
        let (ca, cb) = (cfg_a.clone(), cfg_b.clone());
        let ta = crate::sched::spawn(async move { remoc::Connect::io::<_, _, Vec<u8>, Vec<u8>, remoc::codec::Default>(ca, b_to_a_r, a_to_b_w).await });
        let tb = crate::sched::spawn(async move { remoc::Connect::io::<_, _, Vec<u8>, Vec<u8>, remoc::codec::Default>(cb, a_to_b_r, b_to_a_w).await });
        let r = or_quiescent(async {
            let (x, y) = tokio::join!(ta, tb);
            (x.unwrap(), y.unwrap())
        })
        .await;
        match r {
            Some((Ok((conn_a, mut tx_a, mut rx_a)), Ok((conn_b, mut tx_b, mut rx_b)))) => {
                crate::sched::spawn(conn_a);
                crate::sched::spawn(conn_b);
                // values around and above both chunk sizes in both directions: frames are sized by the chunk size the
                // *receiving* endpoint announced, whatever the sending endpoint's own limit is
                let lens = [8usize, cfg_a.chunk_size as usize + 1, cfg_b.chunk_size as usize + 1, 3 * cfg_a.chunk_size.max(cfg_b.chunk_size) as usize + 5];
                let xfer = crate::sched::spawn(async move {
                    let mut ok = true;
                    for (i, len) in lens.iter().enumerate() {
                        let (va, vb) = (crate::rng::payload(100 + i as u64, *len), crate::rng::payload(200 + i as u64, *len));
                        let (s1, s2, r1, r2) = tokio::join!(tx_a.send(va.clone()), tx_b.send(vb.clone()), rx_b.recv(), rx_a.recv());
                        ok &= s1.is_ok() && s2.is_ok() && matches!(r1, Ok(Some(v)) if v == va) && matches!(r2, Ok(Some(v)) if v == vb);
                    }
                    ok
                });
                let ok = or_quiescent(xfer).await.map(|r| r.unwrap_or(false));
                if ok == Some(true) {
                    out.count("stream_pairs_ok", 1);
                } else {
                    out.viol("C09:stream-pair-transfer", format!("values did not cross the stream transport: {ok:?}"), replay.clone());
                }
            }
            Some((ra, rb)) => {
                out.viol(
                    "C09:stream-pair-connect",
                    format!(
                        "two endpoints with valid configurations cannot connect over a stream transport: A: {:?} B: {:?}",
                        ra.map(|_| ()).map_err(|e| e.to_string()),
                        rb.map(|_| ()).map_err(|e| e.to_string())
                    ),
                    replay.clone(),
                );
            }
            None => out.viol("C09:stream-pair-connect", "Connect::io pending at quiescence on both sides".to_string(), replay.clone()),
        }
    });
    let mut h = Fnv::new();
    h.add_u64(seed);
    h.add_u64(2);
    out.case_hash = Some(h.get());
    out
}
