//! C02 Flow control safety: dedicated runs that push the credit window to its limit.
//! (The wire invariants W2/W3/W4 are additionally evaluated on the C01-style traffic, see mod.rs.)

use bytes::Bytes;
use remoc::chmux::{PortReq, Received};
use serde_json::json;

use super::common::*;
use crate::{
    clock::{run_virtual, settle},
    evidence::RunOut,
    rng::{Fnv, Rng, payload},
    sched::{CancelAt, install_h1, uninstall_h1},
    simnet::Dir,
};

/// Variants: 0 credits starved, 1 idle receiver, 2 port batches, 3 empty messages, 4 cancelled history first
pub fn run_one(run: u64, seed: u64) -> RunOut {
    let mut rng = Rng::new(seed);
    let cfg_a = small_cfg(&mut rng, None);
    let cfg_b = small_cfg(&mut rng, None);
    let netcfg = draw_netcfg(&mut rng);
    let variant = rng.below(5);
    let h1 = *rng.pick(&[0u64, 10, 40]);
    let n_msgs = 3 + rng.usize_below(12);
    let pool = super::c01::len_pool(&cfg_b);
    let lens: Vec<usize> = (0..n_msgs).map(|_| *rng.pick(&pool)).collect();
    let replay = json!({"run": run, "seed": seed, "variant": variant, "cfg_a": cfg_json(&cfg_a), "cfg_b": cfg_json(&cfg_b),
        "net": netcfg_class(&netcfg), "h1_pct": h1, "lens": lens});
    let mut out = RunOut::default();
    let panics0 = crate::mem::panic_count();
    let prefix = crate::clock::thread_prefix();
    install_h1(rng.fork(1), h1, 0);
    let res: Result<(), String> = run_virtual(seed, async {
        let Conn { net, a, mut b, sched: _s } = connect_pair(cfg_a.clone(), cfg_b.clone(), netcfg.clone(), &mut rng).await?;
        let ((mut tx_a, _rx_a), (_tx_b, mut rx_b)) = open_port(&a.client, &mut b.listener).await?;
        let a_port = tx_a.local_port();

        let idle_receiver = variant == 1;
        let receiver = crate::sched::spawn(async move {
            let mut got = 0usize;
            if idle_receiver {
                // never polls the receiver; keeps it alive
                futures::future::pending::<()>().await;
            }
            loop {
                match rx_b.recv_any().await {
                    Ok(Some(Received::Chunks)) => loop {
                        match rx_b.recv_chunk().await {
                            Ok(Some(_)) => {}
                            _ => break,
                        }
                    },
                    Ok(Some(Received::Requests(reqs))) => drop(reqs),
                    Ok(Some(Received::Data(_))) => {}
                    _ => break,
                }
                got += 1;
                crate::simnet::bump_progress();
            }
            got
        });
        // optional history of cancelled sends before the measurement
        if variant == 4 {
            for i in 0..4u64 {
                let len = *rng.pick(&pool);
                let _ = crate::clock::or_quiescent(CancelAt::new(tx_a.send(Bytes::from(payload(1000 + i, len))), rng.below(4) as u32)).await;
            }
        }

        let starve_credits = variant == 0 || variant == 4;
        if starve_credits {
            net.set_starved(Dir::BA, true);
        }
        let lens2 = lens.clone();
        let sender = crate::sched::spawn(async move {
            let mut done = 0usize;
            for (i, len) in lens2.iter().enumerate() {
                crate::simnet::bump_progress();
                let r = match variant {
                    2 => {
                        let alloc = tx_a.port_allocator();
                        let mut ports = Vec::new();
                        for _ in 0..(1 + i % 3) {
                            if let Some(p) = alloc.try_allocate() {
                                ports.push(PortReq::new(p));
                            }
                        }
                        tx_a.connect(ports, true).await.map(|_| ())
                    }
                    3 => tx_a.send(Bytes::new()).await,
                    _ => tx_a.send(Bytes::from(payload(i as u64, *len))).await,
                };
                if r.is_err() {
                    break;
                }
                done += 1;
            }
            (done, tx_a)
        });
        settle().await;

        // At quiescence with starved credits / an idle receiver the sender must be blocked with the window
        // completely used but never exceeded (W3 is evaluated online); the balance is reported.
        let balance = net.with_mon(|m| m.sender_balance(0, a_port)).flatten();
        if let Some(bal) = balance {
            out.max("min_balance_seen_is_zero", u64::from(bal == 0));
            if bal < 0 {
                let mut rp = replay.clone();
                rp["trace_tail"] = net.trace_json(40);
                out.viol("C02:negative-balance-at-quiescence", format!("sender balance {bal} < 0"), rp);
            }
        }
        if idle_receiver {
            // an endpoint must not grant credit for data its receiver never consumed
            let unret = net.with_mon(|m| m.unreturned_at_receiver(0, a_port)).flatten();
            let emitted = net.with_mon(|m| m.credits_emitted_for(0, a_port)).flatten().unwrap_or(0);
            out.count("idle_receiver_runs", 1);
            if emitted > 0 {
                let mut rp = replay.clone();
                rp["trace_tail"] = net.trace_json(40);
                out.viol(
                    "C02:credit-granted-without-consumption",
                    format!("receiver was never polled but granted {emitted} credits (unreturned {unret:?})"),
                    rp,
                );
            }
        }
        if starve_credits {
            net.set_starved(Dir::BA, false);
            settle().await;
            if !sender.is_finished() {
                out.count("sender_pending_after_unstarve", 1);
            }
        }
        wire_violations_to(&mut out, &net, "C02", &replay);
        wire_stats_to(&mut out, &net);
        let st = net.with_mon(|m| m.stats.clone()).unwrap();
        out.count(["starve_runs", "idle_runs", "portbatch_runs", "emptymsg_runs", "cancelhist_runs"][variant as usize], 1);
        if st.max_w3_ratio_permille >= 1000 {
            out.count("runs_reaching_full_window", 1);
        }
        if st.w3_evals > 0 && st.max_w3_ratio_permille >= 500 {
            let mut h = Fnv::new();
            h.add_str(&cfg_class(&cfg_a));
            h.add_str(&cfg_class(&cfg_b));
            h.add_u64(variant);
            for l in &lens {
                h.add_u64(*l as u64);
            }
            h.add_u64(net.signature());
            out.case_hash = Some(h.get());
        }
        if run < 2 {
            out.sample = Some(replay.clone());
        }
        drop(receiver);
        drop(sender);
        Ok(())
    });
    uninstall_h1();
    if let Err(e) = res {
        out.inconclusive = Some(format!("setup failed: {e}"));
    }
    for p in crate::mem::panics_since(&prefix, panics0) {
        let mut rp = replay.clone();
        rp["panic"] = json!({"thread": p.thread, "message": p.message, "location": p.location});
        out.viol("C02:panic", format!("panic at {}: {}", p.location, p.message), rp);
    }
    out
}
