//! Helpers shared by the chmux-level properties: configuration generators, connected endpoint pairs.

use remoc::chmux::{self, ChMux, ChMuxError, Cfg, Client, Listener, PortsExhausted};
use std::{io, sync::Arc, time::Duration};
use tokio::task::JoinHandle;

use crate::{
    rng::Rng,
    simnet::{Delivery, Net, NetCfg, NetSink, NetStream, run_scheduler},
    wiremon::{EpCfg, Mode, WireMon},
};

pub type MuxErr = ChMuxError<io::Error, io::Error>;
pub type Mux = ChMux<NetSink, NetStream>;

pub fn mk_cfg(
    chunk_size: u32, receive_buffer: u32, max_data_size: usize, queues: (usize, usize, usize), connect_queue: u16,
    max_ports: u32, timeout: Option<Duration>,
) -> Cfg {
    let mut cfg = Cfg::default();
    cfg.connection_timeout = timeout;
    cfg.chunk_size = chunk_size;
    cfg.receive_buffer = receive_buffer;
    cfg.max_data_size = max_data_size;
    cfg.shared_send_queue = queues.0;
    cfg.transport_send_queue = queues.1;
    cfg.transport_receive_queue = queues.2;
    cfg.connect_queue = connect_queue;
    cfg.max_ports = max_ports;
    cfg.ports_exhausted = PortsExhausted::Wait(None);
    cfg
}

pub const CHUNK_SIZES: [u32; 6] = [4, 5, 7, 16, 64, 1024];
pub const RECV_BUFS: [u32; 8] = [4, 5, 7, 9, 16, 64, 100, 4096];
pub const MAX_DATA: [usize; 4] = [8, 16, 100, 4096];
pub const QUEUES: [usize; 3] = [1, 2, 16];

/// Draws a small, hostile configuration.
pub fn small_cfg(rng: &mut Rng, timeout: Option<Duration>) -> Cfg {
    mk_cfg(
        *rng.pick(&CHUNK_SIZES),
        *rng.pick(&RECV_BUFS),
        *rng.pick(&MAX_DATA),
        (*rng.pick(&QUEUES), *rng.pick(&QUEUES), *rng.pick(&QUEUES)),
        *rng.pick(&[1u16, 2, 16]),
        *rng.pick(&[8u32, 16, 64]),
        timeout,
    )
}

pub fn cfg_class(c: &Cfg) -> String {
    format!(
        "cs{}rb{}md{}q{}/{}/{}cq{}mp{}",
        c.chunk_size,
        c.receive_buffer,
        c.max_data_size,
        c.shared_send_queue,
        c.transport_send_queue,
        c.transport_receive_queue,
        c.connect_queue,
        c.max_ports
    )
}

pub fn cfg_json(c: &Cfg) -> serde_json::Value {
    serde_json::json!({
        "chunk_size": c.chunk_size, "receive_buffer": c.receive_buffer, "max_data_size": c.max_data_size,
        "shared_send_queue": c.shared_send_queue, "transport_send_queue": c.transport_send_queue,
        "transport_receive_queue": c.transport_receive_queue, "connect_queue": c.connect_queue,
        "max_ports": c.max_ports, "timeout_ms": c.connection_timeout.map(|d| d.as_millis() as u64),
    })
}

pub fn draw_netcfg(rng: &mut Rng) -> NetCfg {
    let delivery = match rng.below(4) {
        0 => Delivery::Eager,
        1 => Delivery::Random { max_yield: 1, max_burst: 4 },
        2 => Delivery::Random { max_yield: 4, max_burst: 1 },
        _ => Delivery::Random { max_yield: 12, max_burst: 3 },
    };
    // a third of the transports buffer frames until the sink is flushed
    let flush_required = rng.chance(33);
    NetCfg { capacity: *rng.pick(&[0usize, 0, 1, 2, 8]), delivery, flush_required, ..NetCfg::default() }
}

pub fn netcfg_class(n: &NetCfg) -> String {
    format!("cap{}{:?}{}", n.capacity, n.delivery, if n.flush_required { "+buffered" } else { "" })
}

pub struct End {
    pub client: Client,
    pub listener: Listener,
    pub run: JoinHandle<Result<(), MuxErr>>,
}

pub struct Conn {
    pub net: Arc<Net>,
    pub a: End,
    pub b: End,
    pub sched: Option<JoinHandle<()>>,
}

/// Establishes a chmux connection between two real endpoints over a fresh simulated network
/// and spawns both dispatchers (as harness tasks).
pub async fn connect_pair(cfg_a: Cfg, cfg_b: Cfg, netcfg: NetCfg, rng: &mut Rng) -> Result<Conn, String> {
    let mon = WireMon::new(EpCfg::from_cfg(&cfg_a), EpCfg::from_cfg(&cfg_b), Mode::Full);
    let net = Net::new(netcfg.clone(), Some(mon));
    let ((sa, ra), (sb, rb)) = net.endpoints();
    let sched = match netcfg.delivery {
        Delivery::Eager => None,
        _ => Some(crate::sched::spawn(run_scheduler(net.clone(), rng.fork(77)))),
    };
    let (ra_, rb_) = crate::clock::or_quiescent(async { tokio::join!(ChMux::new(cfg_a, sa, ra), ChMux::new(cfg_b, sb, rb)) })
        .await
        .ok_or_else(|| "handshake pending at quiescence".to_string())?;
    let (mux_a, client_a, listener_a) = ra_.map_err(|e| format!("ChMux::new A failed: {e}"))?;
    let (mux_b, client_b, listener_b) = rb_.map_err(|e| format!("ChMux::new B failed: {e}"))?;
    let run_a = crate::sched::spawn(mux_a.run());
    let run_b = crate::sched::spawn(mux_b.run());
    Ok(Conn {
        net,
        a: End { client: client_a, listener: listener_a, run: run_a },
        b: End { client: client_b, listener: listener_b, run: run_b },
        sched,
    })
}

/// Opens one port pair: `client` connects, `listener` accepts. Returns ((client tx, rx), (server tx, rx)).
pub async fn open_port(
    client: &Client, listener: &mut Listener,
) -> Result<((chmux::Sender, chmux::Receiver), (chmux::Sender, chmux::Receiver)), String> {
    let (c, s) = crate::clock::or_quiescent(async { tokio::join!(client.connect(), listener.accept()) })
        .await
        .ok_or_else(|| "connect/accept pending at quiescence".to_string())?;
    let c = c.map_err(|e| format!("connect failed: {e}"))?;
    let s = s.map_err(|e| format!("accept failed: {e}"))?.ok_or_else(|| "listener closed".to_string())?;
    Ok((c, s))
}

pub fn wire_violations_to(out: &mut crate::evidence::RunOut, net: &Net, prop: &str, replay: &serde_json::Value) {
    let trace = net.trace_json(60);
    if let Some(v) = net.with_mon(|m| m.violations.clone()) {
        for w in v.into_iter().take(3) {
            let mut r = replay.clone();
            r["wire_violation"] = serde_json::json!({"code": w.code, "seq": w.seq, "detail": w.detail});
            r["trace_tail"] = trace.clone();
            out.viol(format!("{prop}:wire:{}", w.code), format!("{} at frame {}: {}", w.code, w.seq, w.detail), r);
        }
    }
}

pub fn wire_stats_to(out: &mut crate::evidence::RunOut, net: &Net) {
    if let Some(s) = net.with_mon(|m| m.stats.clone()) {
        out.count("frames", s.frames);
        out.count("w2_evals", s.w2_evals);
        out.count("w3_evals", s.w3_evals);
        out.count("w4_evals", s.w4_evals);
        out.count("w5_evals", s.w5_evals);
        out.count("w6_evals", s.w6_evals);
        out.count("pairs", s.pairs);
        out.count("data_frames", s.data_frames);
        out.count("multi_chunk_msgs", s.multi_chunk_msgs);
        out.count("cancelled_msgs_on_wire", s.cancelled_msgs);
        out.count("zero_port_frames", s.zero_port_frames);
        out.max("max_w3_ratio_permille", s.max_w3_ratio_permille);
        out.max("max_w4_ratio_permille", s.max_w4_ratio_permille);
        out.max("max_w5_outstanding", s.max_w5_outstanding);
    }
}
