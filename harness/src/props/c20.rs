//! C20: handles (confinement, type safety, release) and lazily transferred values / blobs (fidelity, error
//! instead of truncation).

use bytes::{Buf, Bytes};
use remoc::robj::{
    handle::{Handle, HandleError},
    lazy::Lazy,
    lazy_blob::LazyBlob,
};
use serde::{Deserialize, Serialize};
use serde_json::json;
use std::{
    sync::{
        Arc,
        atomic::{AtomicU64, Ordering},
    },
    time::Duration,
};

use super::{common::*, rig::*};
use crate::{
    clock::{or_quiescent, run_virtual, settle},
    evidence::RunOut,
    rng::{Fnv, Rng, payload},
    sched::{install_h1, uninstall_h1},
    simnet::{Dir, Fault, FaultKind, Net},
};

/// The value behind a handle: identifies itself and counts its own destruction.
pub struct Val {
    pub id: u64,
    pub drops: Arc<AtomicU64>,
}

/// `Handle<T>: Clone` asks for `T: Clone` (derive) but never clones the value; a clone would be a second value.
impl Clone for Val {
    fn clone(&self) -> Self {
        self.drops.fetch_add(1_000_000, Ordering::SeqCst);
        Val { id: self.id, drops: Arc::new(AtomicU64::new(0)) }
    }
}

impl Drop for Val {
    fn drop(&mut self) {
        self.drops.fetch_add(1, Ordering::SeqCst);
    }
}

/// Another type, for casts.
pub struct Other {
    pub x: u64,
}

#[derive(Serialize, Deserialize)]
pub enum Ship {
    H(Handle<Val>),
    L(Lazy<Item>),
    B(LazyBlob),
}

struct Link {
    cfgs: (remoc::Cfg, remoc::Cfg),
    ends: (usize, usize),
    net: Arc<Net>,
    a: RchEnd<Ship, Ship>,
    b: RchEnd<Ship, Ship>,
    _sched: Option<tokio::task::JoinHandle<()>>,
}

/// Moves `ship` over link `l` from node `from` to the other end. Err(text) if the transfer failed.
async fn hop(l: &mut Link, from: usize, ship: Ship) -> Result<(usize, Ship), String> {
    let (tx, rx, to) = if from == l.ends.0 { (&mut l.a.tx, &mut l.b.rx, l.ends.1) } else { (&mut l.b.tx, &mut l.a.rx, l.ends.0) };
    let r = or_quiescent(async { tokio::join!(tx.send(ship), rx.recv()) }).await;
    match r {
        Some((Ok(()), Ok(Some(s)))) => Ok((to, s)),
        Some((s, r)) => Err(format!("send: {:?}, recv: {:?}", s.map_err(|e| e.to_string()), r.map(|_| ()).map_err(|e| e.to_string()))),
        None => Err("transfer pending at quiescence".into()),
    }
}

async fn build_links(n_links: usize, rng: &mut Rng) -> Result<Vec<Link>, String> {
    // nodes 0..=n_links on a line, plus (with three links) the triangle edge back to node 0
    let shapes: &[&[(usize, usize)]] = &[&[(0, 1)], &[(0, 1), (1, 2)], &[(0, 1), (1, 2), (2, 0)], &[(0, 1), (1, 2), (2, 3)]];
    let shape = match n_links {
        1 => shapes[0],
        2 => shapes[1],
        _ => {
            if rng.chance(50) {
                shapes[2]
            } else {
                shapes[3]
            }
        }
    };
    let mut links = Vec::new();
    for ends in shape {
        let (ca, cb) = (rch_cfg(rng), rch_cfg(rng));
        let (net, a, b, sched) = connect_rch_hetero::<Ship, Ship, Ship, Ship>(ca.clone(), cb.clone(), draw_netcfg(rng), rng).await?;
        links.push(Link { cfgs: (ca, cb), ends: *ends, net, a, b, _sched: sched });
    }
    Ok(links)
}

#[derive(Clone, Copy, Debug, PartialEq, Eq)]
enum Lineage {
    /// never serialized: the handle as created
    Native,
    /// left the creating endpoint (is or was remote)
    Travelled,
}

struct Hd {
    h: Handle<Val>,
    node: usize,
    /// which value it refers to
    val: usize,
    lineage: Lineage,
    /// links it travelled over since it last left its home, in order (for "same way back" detection)
    trail: Vec<usize>,
}

struct ValState {
    id: u64,
    home: usize,
    drops: Arc<AtomicU64>,
    taken: bool,
    provider: Option<remoc::robj::handle::Provider>,
    provider_dropped: bool,
}

pub fn run_handles(run: u64, seed: u64) -> RunOut {
    let prop = "C20";
    let mut rng = Rng::new(seed ^ 0x20);
    let n_links = 1 + rng.usize_below(3);
    let n_ops = 4 + rng.usize_below(24);
    let h1 = *rng.pick(&[0u64, 0, 20, 50]);
    let replay = json!({"run": run, "seed": seed, "scenario": "handles", "links": n_links, "ops": n_ops, "h1_pct": h1});
    let mut out = RunOut::default();
    let panics0 = crate::mem::panic_count();
    let prefix = crate::clock::thread_prefix();
    install_h1(rng.fork(1), h1, 0);
    let mut oplog: Vec<String> = Vec::new();
    let res: Result<(), String> = run_virtual(seed, async {
        let mut links = build_links(n_links, &mut rng).await?;
        let n_nodes = links.iter().map(|l| l.ends.0.max(l.ends.1)).max().unwrap() + 1;
        // values: two at node 0, one at node 1 (same type: an id that resolves elsewhere must not yield it)
        let mut vals: Vec<ValState> = Vec::new();
        let mut hds: Vec<Hd> = Vec::new();
        for (i, home) in [0usize, 0, 1].iter().enumerate() {
            let drops = Arc::new(AtomicU64::new(0));
            let v = Val { id: 1000 + i as u64, drops: drops.clone() };
            let (h, provider) = if rng.chance(50) {
                let (h, p) = Handle::provided(v);
                (h, Some(p))
            } else {
                (Handle::new(v), None)
            };
            vals.push(ValState { id: 1000 + i as u64, home: *home, drops, taken: false, provider, provider_dropped: false });
            hds.push(Hd { h, node: *home, val: i, lineage: Lineage::Native, trail: vec![] });
        }
        let mut bad: Vec<(String, String)> = Vec::new();
        let mut stats = (0u64, 0u64, 0u64, 0u64, 0u64); // resolved ok, refused foreign, refused cast, refused taken, transfers
        for opno in 0..n_ops {
            crate::simnet::bump_progress();
            if hds.is_empty() {
                break;
            }
            let k = rng.usize_below(hds.len());
            match rng.below(100) {
                // ---- clone ----
                x if x < 15 => {
                    let c = Hd { h: hds[k].h.clone(), node: hds[k].node, val: hds[k].val, lineage: hds[k].lineage, trail: hds[k].trail.clone() };
                    oplog.push(format!("{opno}: clone handle of v{} at node {}", c.val, c.node));
                    hds.push(c);
                }
                // ---- transfer over a link ----
                x if x < 50 => {
                    let node = hds[k].node;
                    let cand: Vec<usize> = (0..links.len()).filter(|i| links[*i].ends.0 == node || links[*i].ends.1 == node).collect();
                    if cand.is_empty() {
                        continue;
                    }
                    let li = *rng.pick(&cand);
                    let hd = hds.swap_remove(k);
                    let (val, mut trail) = (hd.val, hd.trail.clone());
                    match hop(&mut links[li], node, Ship::H(hd.h)).await {
                        Ok((to, Ship::H(h))) => {
                            stats.4 += 1;
                            // the way back over the same link cancels the last step of the trail
                            if trail.last() == Some(&li) {
                                trail.pop();
                            } else {
                                trail.push(li);
                            }
                            oplog.push(format!("{opno}: handle of v{val} node {node} -> node {to} over link {li}"));
                            hds.push(Hd { h, node: to, val, lineage: Lineage::Travelled, trail });
                        }
                        Ok(_) => return Err("wrong kind arrived".into()),
                        Err(e) => return Err(format!("transfer of a handle failed: {e}")),
                    }
                }
                // ---- drop ----
                x if x < 62 => {
                    let hd = hds.swap_remove(k);
                    oplog.push(format!("{opno}: drop handle of v{} at node {}", hd.val, hd.node));
                    drop(hd);
                }
                // ---- provider dropped ----
                x if x < 67 => {
                    let v = hds[k].val;
                    if vals[v].provider.take().is_some() {
                        vals[v].provider_dropped = true;
                        oplog.push(format!("{opno}: drop provider of v{v}"));
                        settle().await;
                    }
                }
                // ---- use through a cast to another type ----
                x if x < 77 => {
                    let hd = &hds[k];
                    let c: Handle<Other> = hd.h.clone().cast();
                    let r = or_quiescent(c.as_ref()).await;
                    oplog.push(format!("{opno}: cast handle of v{} at node {} as_ref -> {:?}", hd.val, hd.node, r.as_ref().map(|r| r.as_ref().map(|o| o.x).map_err(|e| e.to_string()))));
                    match r {
                        Some(Ok(o)) => bad.push(("C20:handle-type-confusion".into(), format!("a Handle<Val> cast to Handle<Other> resolved at node {} (field reads {})", hd.node, o.x))),
                        Some(Err(e)) => {
                            stats.2 += 1;
                            out.item("cast_errors", format!("{}", match e { HandleError::Unknown => "Unknown", HandleError::MismatchedType(_) => "MismatchedType" }));
                        }
                        None => bad.push(("C20:handle-use-pending".into(), "as_ref on a cast handle is pending at quiescence".into())),
                    }
                    // the cast back to the original type is the original handle again
                    let back: Handle<Val> = hd.h.clone().cast::<Other>().cast();
                    if let Some(Ok(v)) = or_quiescent(back.as_ref()).await {
                        if v.id != vals[hd.val].id {
                            bad.push(("C20:handle-wrong-value".into(), format!("handle of v{} resolved to value {}", hd.val, v.id)));
                        }
                    }
                }
                // ---- take the value ----
                x if x < 83 => {
                    let hd = hds.swap_remove(k);
                    let (node, val, lineage, trail_empty) = (hd.node, hd.val, hd.lineage, hd.trail.is_empty());
                    let r = or_quiescent(hd.h.into_inner()).await;
                    oplog.push(format!("{opno}: into_inner handle of v{val} at node {node} ({lineage:?}) -> {:?}", r.as_ref().map(|r| r.as_ref().map(|v| v.id).map_err(|e| e.to_string()))));
                    match r {
                        Some(Ok(v)) => {
                            if node != vals[val].home {
                                bad.push(("C20:handle-resolved-on-foreign-endpoint".into(), format!("into_inner of a handle of v{val} (home node {}) succeeded at node {node}", vals[val].home)));
                            }
                            if v.id != vals[val].id {
                                bad.push(("C20:handle-wrong-value".into(), format!("into_inner of a handle of v{val} returned value {}", v.id)));
                            }
                            if vals[val].taken {
                                bad.push(("C20:handle-use-after-take".into(), format!("into_inner of v{val} succeeded twice")));
                            }
                            vals[val].taken = true;
                            stats.0 += 1;
                            drop(v);
                        }
                        Some(Err(_)) => {
                            if node == vals[val].home && lineage == Lineage::Native && !vals[val].taken {
                                bad.push(("C20:local-handle-unusable".into(), format!("into_inner of a handle of v{val} that never left its endpoint failed")));
                            }
                            let _ = trail_empty;
                            if vals[val].taken {
                                stats.3 += 1;
                            } else {
                                stats.1 += 1;
                            }
                        }
                        None => bad.push(("C20:handle-use-pending".into(), "into_inner is pending at quiescence".into())),
                    }
                }
                // ---- use ----
                _ => {
                    let hd = &mut hds[k];
                    let (node, val, lineage) = (hd.node, hd.val, hd.lineage);
                    let use_mut = rng.chance(30);
                    let r: Option<Result<u64, HandleError>> = if use_mut { or_quiescent(hd.h.as_mut()).await.map(|r| r.map(|v| v.id)) } else { or_quiescent(hd.h.as_ref()).await.map(|r| r.map(|v| v.id)) };
                    oplog.push(format!("{opno}: {} handle of v{val} at node {node} ({lineage:?}, trail {:?}) -> {:?}", if use_mut { "as_mut" } else { "as_ref" }, hd.trail, r.as_ref().map(|r| r.as_ref().map_err(|e| e.to_string()))));
                    match r {
                        Some(Ok(id)) => {
                            stats.0 += 1;
                            if node != vals[val].home {
                                bad.push(("C20:handle-resolved-on-foreign-endpoint".into(), format!("a handle of v{val} (home node {}) resolved at node {node}", vals[val].home)));
                            }
                            if id != vals[val].id {
                                bad.push(("C20:handle-wrong-value".into(), format!("a handle of v{val} resolved to value {id}")));
                            }
                            if vals[val].taken {
                                bad.push(("C20:handle-use-after-take".into(), format!("a handle of v{val} resolved after the value was taken")));
                            }
                            out.item("resolved_lineages", format!("{lineage:?}/{}", if hd.trail.is_empty() { "trail-cancels-out" } else { "trail-does-not-cancel" }));
                            if !hd.trail.is_empty() && std::env::var("HARNESS_DEBUG").is_ok() {
                                eprintln!("c20: resolved other-way v{val} node {node} trail {:?} links {:?}\n  {}", hd.trail, links.iter().map(|l| l.ends).collect::<Vec<_>>(), oplog.join("\n  "));
                            }
                        }
                        Some(Err(e)) => {
                            if node == vals[val].home && lineage == Lineage::Native && !vals[val].taken {
                                bad.push(("C20:local-handle-unusable".into(), format!("a handle of v{val} that never left its endpoint fails with {e}")));
                            }
                            if node != vals[val].home {
                                stats.1 += 1;
                            } else if vals[val].taken {
                                stats.3 += 1;
                            } else if lineage == Lineage::Travelled {
                                out.item("home_refusals", format!("{}{}", if hd.trail.is_empty() { "trail-cancels-out" } else { "trail-does-not-cancel" }, if vals[val].provider_dropped { "/provider-dropped" } else { "" }));
                            }
                        }
                        None => bad.push(("C20:handle-use-pending".into(), "a handle access is pending at quiescence".into())),
                    }
                }
            }
            if !bad.is_empty() {
                break;
            }
        }
        // ---- release ----
        settle().await;
        // nothing may be released while a native handle at home is alive (unless taken)
        for (i, v) in vals.iter().enumerate() {
            let native_alive = hds.iter().any(|h| h.val == i && h.lineage == Lineage::Native);
            if native_alive && !v.taken && v.drops.load(Ordering::SeqCst) > 0 {
                bad.push(("C20:value-released-early".into(), format!("v{i} was destroyed while a handle to it is alive at its home")));
            }
        }
        // drop the remaining handles in random order, or (for values with a provider) drop the provider and
        // only the handles at home
        let by_provider: Vec<bool> = vals.iter().map(|v| v.provider.is_some() && rng.chance(50)).collect();
        let mut leftovers: Vec<Hd> = Vec::new();
        while !hds.is_empty() {
            let k = rng.usize_below(hds.len());
            let hd = hds.swap_remove(k);
            if by_provider[hd.val] && hd.node != vals[hd.val].home {
                leftovers.push(hd);
            } else {
                drop(hd);
            }
            if rng.chance(30) {
                settle().await;
            }
        }
        for (i, v) in vals.iter_mut().enumerate() {
            if by_provider[i] {
                v.provider = None;
                v.provider_dropped = true;
            }
        }
        settle().await;
        tokio::time::sleep(Duration::from_millis(5)).await;
        settle().await;
        for (i, v) in vals.iter().enumerate() {
            let d = v.drops.load(Ordering::SeqCst);
            if d != 1 {
                let remote_left = leftovers.iter().filter(|h| h.val == i).count();
                bad.push((
                    if d == 0 { "C20:value-not-released".to_string() } else { "C20:value-destroyed-twice".to_string() },
                    format!("v{i} was destroyed {d} times after {} (handles still held on other endpoints: {remote_left}; taken={})", if by_provider[i] { "its provider and all handles at its home were dropped" } else { "every handle on every endpoint was dropped" }, v.taken),
                ));
            }
            out.item("release_modes", format!("{}{}", if by_provider[i] { "provider-dropped" } else { "all-handles-dropped" }, if v.taken { "/taken" } else { "" }));
        }
        // what is left on other endpoints must not resolve any more
        for hd in leftovers {
            let (node, val) = (hd.node, hd.val);
            if let Some(Ok(v)) = or_quiescent(hd.h.as_ref()).await {
                bad.push(("C20:handle-resolved-on-foreign-endpoint".into(), format!("a handle of v{val} resolved at node {node} to {} after release", v.id)));
            }
        }
        let mut seen = std::collections::BTreeSet::new();
        for (sig, d) in bad.into_iter().filter(|b| seen.insert(b.0.clone())).take(3) {
            let mut rp = replay.clone();
            rp["oplog"] = json!(oplog);
            out.viol(sig, d, rp);
        }
        out.count("handle_ops", oplog.len() as u64);
        out.count("handle_resolved_ok", stats.0);
        out.count("handle_refused_foreign", stats.1);
        out.count("handle_refused_cast", stats.2);
        out.count("handle_refused_taken", stats.3);
        out.count("handle_transfers", stats.4);
        out.item("topologies", format!("{} links / {} nodes", links.len(), n_nodes));
        if stats.4 > 0 {
            let mut hh = Fnv::new();
            for l in &oplog {
                hh.add_str(l);
            }
            out.case_hash = Some(hh.get());
        }
        for l in &links {
            wire_violations_to(&mut out, &l.net, prop, &replay);
        }
        drop(links);
        Ok(())
    });
    uninstall_h1();
    if let Err(e) = res {
        out.inconclusive = Some(e);
    }
    if run < 4 {
        out.sample = Some(json!({"plan": replay, "oplog": oplog}));
    }
    for p in crate::mem::panics_since(&prefix, panics0) {
        out.viol(format!("{prop}:panic"), format!("panic at {}: {}", p.location, p.message), replay.clone());
    }
    out
}

fn blob_len(rng: &mut Rng, c: &remoc::Cfg) -> usize {
    let (cs, rb, md) = (c.chunk_size as usize, c.receive_buffer as usize, c.max_data_size);
    match rng.below(15) {
        11 => md,
        12 => md + 1,
        13 => md + cs,
        14 => md + cs + 1,
        0 => 0,
        1 => 1,
        2 => cs - 1,
        3 => cs,
        4 => cs + 1,
        5 => rb - 1,
        6 => rb,
        7 => rb + 1,
        8 => 3 * rb + 5,
        9 => rng.usize_below(3_000),
        _ => rng.usize_below(30_000),
    }
}

pub fn run_lazy(run: u64, seed: u64) -> RunOut {
    let prop = "C20";
    let mut rng = Rng::new(seed ^ 0x2020);
    let n_links = 1 + rng.usize_below(3);
    let blob = rng.chance(50);
    let hops = 1 + rng.usize_below(4);
    let provider_fate = *rng.pick(&["keep", "keep", "keep", "drop-before-fetch", "new"]);
    let n_fetchers = if blob { 1 + rng.usize_below(3) } else { 1 };
    // the first fetch attempt is dropped after a few polls and retried (a fetch is resumable)
    let cancel_first: Option<u32> = rng.chance(30).then(|| 1 + rng.below(12) as u32);
    let cut: Option<(FaultKind, bool, usize)> = rng.chance(25).then(|| (*rng.pick(&[FaultKind::SinkError, FaultKind::StreamError, FaultKind::Eof]), rng.chance(50), rng.usize_below(50)));
    let h1 = *rng.pick(&[0u64, 0, 20, 50]);
    let mut out = RunOut::default();
    let panics0 = crate::mem::panic_count();
    let prefix = crate::clock::thread_prefix();
    install_h1(rng.fork(1), h1, 0);
    let mut plan = json!({"run": run, "seed": seed, "scenario": if blob { "lazy_blob" } else { "lazy" }, "links": n_links, "hops": hops, "provider": provider_fate, "fetchers": n_fetchers, "first_fetch_cancelled_after_polls": cancel_first, "connection_cut": format!("{cut:?}"), "h1_pct": h1});
    let res: Result<(), String> = run_virtual(seed, async {
        let mut links = build_links(n_links, &mut rng).await?;
        // lengths around the thresholds of one of the endpoints of one of the connections
        let lcfg = {
            let l = &links[rng.usize_below(links.len())];
            if rng.chance(50) { l.cfgs.0.clone() } else { l.cfgs.1.clone() }
        };
        let len = blob_len(&mut rng, &lcfg);
        plan["len"] = json!(len);
        let data = payload(seed, len);
        let item = Item::new(seed, len);
        let mut provider: Box<dyn std::any::Any + Send> = Box::new(());
        let ship = if blob {
            if provider_fate == "new" {
                Ship::B(LazyBlob::new(Bytes::from(data.clone())))
            } else {
                let (b, p) = LazyBlob::provided(Bytes::from(data.clone()));
                provider = Box::new(p);
                Ship::B(b)
            }
        } else if provider_fate == "new" {
            Ship::L(Lazy::new(item.clone()))
        } else {
            let (l, p) = Lazy::provided(item.clone());
            provider = Box::new(p);
            Ship::L(l)
        };
        // forward it `hops` times along random links
        let mut node = 0usize;
        let mut ship = ship;
        let mut path = vec![0usize];
        let mut used = Vec::new();
        for _ in 0..hops {
            let cand: Vec<usize> = (0..links.len()).filter(|i| links[*i].ends.0 == node || links[*i].ends.1 == node).collect();
            let li = *rng.pick(&cand);
            let (to, s) = hop(&mut links[li], node, ship).await.map_err(|e| format!("forwarding failed: {e}"))?;
            node = to;
            ship = s;
            path.push(to);
            used.push(li);
        }
        plan["path"] = json!(path);
        if provider_fate == "drop-before-fetch" {
            provider = Box::new(());
            settle().await;
        }
        if let Some((kind, ab, after)) = cut {
            let li = *rng.pick(&used);
            let (pa, pb) = links[li].net.put_counts();
            links[li].net.set_fault(Fault { dir: if ab { Dir::AB } else { Dir::BA }, at: if ab { pa } else { pb } + after, kind });
        }
        // fetch
        let mut results: Vec<Option<Result<Vec<u8>, String>>> = Vec::new();
        let mut lens: Vec<Option<usize>> = Vec::new();
        let mut second: Vec<Option<Result<Vec<u8>, String>>> = Vec::new();
        match ship {
            Ship::B(b) => {
                let clones: Vec<LazyBlob> = (0..n_fetchers).map(|_| b.clone()).collect();
                drop(b);
                let tasks: Vec<_> = clones
                    .into_iter()
                    .enumerate()
                    .map(|(i, c)| {
                        crate::sched::spawn(async move {
                            let l = c.len().ok();
                            if let (Some(k), 0) = (cancel_first, i) {
                                let _ = crate::sched::CancelAt::new(c.get(), k).await;
                                crate::simnet::bump_progress();
                            }
                            let first = c.get().await.map(|mut d| d.copy_to_bytes(d.remaining()).to_vec()).map_err(|e| format!("{e:?}"));
                            let again = if i % 2 == 0 { c.get().await.map(|mut d| d.copy_to_bytes(d.remaining()).to_vec()).map_err(|e| format!("{e:?}")) } else { c.into_inner().await.map(|mut d| d.copy_to_bytes(d.remaining()).to_vec()).map_err(|e| format!("{e:?}")) };
                            crate::simnet::bump_progress();
                            (l, first, again)
                        })
                    })
                    .collect();
                for _ in 0..200 {
                    settle().await;
                    if tasks.iter().all(|t| t.is_finished()) {
                        break;
                    }
                    tokio::time::sleep(Duration::from_millis(3)).await;
                }
                for t in tasks {
                    if t.is_finished() {
                        let (l, f, a) = t.await.map_err(|e| e.to_string())?;
                        lens.push(l);
                        results.push(Some(f));
                        second.push(Some(a));
                    } else {
                        results.push(None);
                    }
                }
            }
            Ship::L(l) => {
                let t = crate::sched::spawn(async move {
                    if let Some(k) = cancel_first {
                        let _ = crate::sched::CancelAt::new(l.get(), k).await;
                        crate::simnet::bump_progress();
                    }
                    let first = l.get().await.map(|v| (v.id, v.data.clone(), v.valid())).map_err(|e| format!("{e:?}"));
                    let again = l.into_inner().await.map(|v| (v.id, v.data.clone(), v.valid())).map_err(|e| format!("{e:?}"));
                    crate::simnet::bump_progress();
                    (first, again)
                });
                for _ in 0..200 {
                    settle().await;
                    if t.is_finished() {
                        break;
                    }
                    tokio::time::sleep(Duration::from_millis(3)).await;
                }
                if t.is_finished() {
                    let (f, a) = t.await.map_err(|e| e.to_string())?;
                    let conv = |r: Result<(u64, Vec<u8>, bool), String>| {
                        r.map(|(id, d, valid)| {
                            if id != seed || !valid {
                                vec![0xff; d.len() + 1]
                            } else {
                                d
                            }
                        })
                    };
                    results.push(Some(conv(f)));
                    second.push(Some(conv(a)));
                } else {
                    results.push(None);
                }
            }
            Ship::H(_) => unreachable!(),
        }
        let cut_fired = links.iter().any(|l| l.net.fault_fired());
        let expect: &[u8] = if blob { &data } else { &item.data };
        let mut bad: Vec<(String, String)> = Vec::new();
        for (i, r) in results.iter().enumerate() {
            match r {
                None => {
                    bad.push(("C20:lazy-fetch-pending".into(), format!("fetch {i} of a {} of {len} bytes is pending at quiescence (provider {provider_fate}, cut fired={cut_fired})", if blob { "LazyBlob" } else { "Lazy" })));
                }
                Some(Ok(d)) => {
                    if d[..] != expect[..] {
                        let kind = if d.len() < expect.len() && d[..] == expect[..d.len()] { "C20:lazy-truncated" } else { "C20:lazy-value-differs" };
                        bad.push((kind.into(), format!("fetch {i} returned {} bytes, provided were {} (cut fired={cut_fired})", d.len(), expect.len())));
                    }
                    if provider_fate == "drop-before-fetch" {
                        bad.push(("C20:lazy-fetched-after-provider-dropped".into(), format!("fetch {i} returned a value although the provider had been dropped before the fetch")));
                    }
                }
                Some(Err(e)) => {
                    if !cut_fired && provider_fate != "drop-before-fetch" {
                        bad.push(("C20:lazy-fetch-failed".into(), format!("fetch {i} over an undisturbed path {path:?} failed: {e}")));
                    }
                    out.item("fetch_error_kinds", e.split(['(', ' ']).next().unwrap_or("").to_string());
                }
            }
            if let (Some(a), Some(Some(b))) = (r, second.get(i)) {
                if a.as_ref().ok() != b.as_ref().ok() {
                    bad.push(("C20:lazy-value-differs".into(), format!("two fetches through the same object differ: {} vs {}", a.as_ref().map(|d| d.len().to_string()).unwrap_or_else(|e| e.clone()), b.as_ref().map(|d| d.len().to_string()).unwrap_or_else(|e| e.clone()))));
                }
            }
        }
        for l in &lens {
            if *l != Some(len) {
                bad.push(("C20:lazy-value-differs".into(), format!("LazyBlob::len() = {l:?}, provided were {len} bytes")));
            }
        }
        let mut seen = std::collections::BTreeSet::new();
        for (sig, d) in bad.into_iter().filter(|b| seen.insert(b.0.clone())).take(3) {
            let mut rp = plan.clone();
            rp["results"] = json!(results.iter().map(|r| format!("{:?}", r.as_ref().map(|r| r.as_ref().map(|d| d.len())))).collect::<Vec<_>>());
            if let Some(l) = links.first() {
                rp["trace_tail"] = l.net.trace_json(20);
            }
            out.viol(sig, d, rp);
        }
        out.count("lazy_fetches", results.len() as u64);
        out.count("lazy_fetches_ok", results.iter().filter(|r| matches!(r, Some(Ok(_)))).count() as u64);
        out.count("lazy_fetches_failed", results.iter().filter(|r| matches!(r, Some(Err(_)))).count() as u64);
        out.count("lazy_bytes_fetched", results.iter().filter_map(|r| r.as_ref().and_then(|r| r.as_ref().ok()).map(|d| d.len() as u64)).sum());
        out.count("lazy_connection_cuts_fired", cut_fired as u64);
        out.item("lazy_kinds", format!("{}/{} hops/{}", if blob { "blob" } else { "value" }, hops, provider_fate));
        out.item("lazy_paths", format!("{path:?}"));
        let mut hh = Fnv::new();
        hh.add_str(&format!("{blob}{len}{path:?}{provider_fate}{cut:?}{n_fetchers}{cancel_first:?}"));
        out.count("lazy_runs_with_cancelled_first_fetch", cancel_first.is_some() as u64);
        out.case_hash = Some(hh.get());
        if cut.is_none() {
            for l in &links {
                wire_violations_to(&mut out, &l.net, prop, &plan);
            }
        }
        drop(provider);
        drop(links);
        Ok(())
    });
    uninstall_h1();
    if let Err(e) = res {
        out.inconclusive = Some(e);
    }
    if run < 4 {
        out.sample = Some(json!({"plan": plan}));
    }
    for p in crate::mem::panics_since(&prefix, panics0) {
        out.viol(format!("{prop}:panic"), format!("panic at {}: {}", p.location, p.message), plan.clone());
    }
    out
}
