//! C11 Close and drop reach the other half, correctly classified, losing no sent data.

use bytes::Bytes;
use remoc::rch::{ClosedReason, mpsc};
use serde_json::json;
use std::sync::{Arc, Mutex};

use super::{c04::Ship, common::*, rig::*};
use crate::{
    clock::{or_quiescent, run_virtual, settle},
    evidence::RunOut,
    rng::{Fnv, Rng, payload},
    sched::{install_h1, uninstall_h1},
};

#[derive(serde::Serialize, serde::Deserialize)]
pub enum BinShip {
    Tx(remoc::rch::bin::Sender),
    Rx(remoc::rch::bin::Receiver),
}

#[derive(Clone, Copy, Debug, PartialEq, Eq)]
pub enum Event {
    SenderDrop,
    SenderDropMidMessage,
    ReceiverClose,
    ReceiverDrop,
    /// the connection is lost (dispatcher of the sending endpoint aborted) after `pos` messages were received
    ConnCut,
}

#[derive(Clone, Copy, Debug, PartialEq, Eq)]
pub enum Kind {
    Port,
    /// a raw port pair whose two ends sit on two different connections of a third endpoint, which forwards
    /// (an `rch::bin` channel both halves of which were sent away)
    PortForwarded,
    Base,
    Lr,
    Mpsc,
}

pub struct Case {
    pub kind: Kind,
    pub event: Event,
    pub n_msgs: usize,
    pub pos: usize,
}

/// All (kind, event, n, position) tuples.
pub fn enumerate() -> Vec<Case> {
    let mut v = Vec::new();
    for kind in [Kind::Port, Kind::PortForwarded, Kind::Base, Kind::Lr, Kind::Mpsc] {
        for event in [Event::SenderDrop, Event::SenderDropMidMessage, Event::ReceiverClose, Event::ReceiverDrop, Event::ConnCut] {
            if event == Event::SenderDropMidMessage && !matches!(kind, Kind::Port | Kind::PortForwarded) {
                continue;
            }
            if event == Event::ConnCut && matches!(kind, Kind::Port | Kind::PortForwarded) {
                continue; // port-level cuts are C06's subject
            }
            for n_msgs in [1usize, 2, 4, 8] {
                for pos in 0..=n_msgs {
                    v.push(Case { kind, event, n_msgs, pos });
                }
            }
        }
    }
    v
}

#[derive(Default, Debug)]
struct Hist {
    /// ids of sends that completed Ok, in order
    sent_ok: Vec<u64>,
    /// results of sends after the first failure (classification strings)
    send_errs: Vec<String>,
    received: Vec<u64>,
    eos: bool,
    recv_errs: Vec<String>,
    closed_future_resolved: bool,
    /// mpsc: per value the outcome of its Sending handle, in send order
    sending: Vec<(u64, String)>,
    closed_reason: Option<String>,
}

pub fn run_case(run: u64, seed: u64, case: &Case) -> RunOut {
    let mut rng = Rng::new(seed);
    let cfg_a = if case.kind == Kind::Port { small_cfg(&mut rng, None) } else { rch_cfg(&mut rng) };
    let cfg_b = if case.kind == Kind::Port { small_cfg(&mut rng, None) } else { rch_cfg(&mut rng) };
    let (mut cfg_a, mut cfg_b) = (cfg_a, cfg_b);
    if case.kind == Kind::Port {
        cfg_a.max_data_size = 4096;
        cfg_b.max_data_size = 4096;
    }
    let mut netcfg = draw_netcfg(&mut rng);
    // close() cancelled while the receiver's path to the transport is clogged, then retried
    let pressure = case.kind == Kind::Port && case.event == Event::ReceiverClose && rng.chance(40);
    if pressure {
        cfg_b.shared_send_queue = 1;
        cfg_b.transport_send_queue = 1;
        netcfg.capacity = 1;
    }
    let poll_api = rng.chance(50);
    let h1 = *rng.pick(&[0u64, 0, 20, 50]);
    let n_senders = if case.kind == Kind::Mpsc { 1 + rng.usize_below(3) } else { 1 };
    let lens: Vec<usize> = (0..case.n_msgs).map(|_| *rng.pick(&[0usize, 1, 5, 17, 40, 150, 600])).collect();
    let replay = json!({"run": run, "seed": seed, "kind": format!("{:?}", case.kind), "event": format!("{:?}", case.event), "n_msgs": case.n_msgs,
        "position": case.pos, "lens": lens, "senders": n_senders, "close_cancelled_under_backpressure": pressure, "poll_api": poll_api, "cfg_a": cfg_json(&cfg_a), "cfg_b": cfg_json(&cfg_b), "net": netcfg_class(&netcfg), "h1_pct": h1});
    let mut out = RunOut::default();
    let panics0 = crate::mem::panic_count();
    let prefix = crate::clock::thread_prefix();
    install_h1(rng.fork(1), h1, 0);
    let hist = Arc::new(Mutex::new(Hist::default()));
    let (event, pos, n_msgs, kind) = (case.event, case.pos, case.n_msgs, case.kind);
    let res: Result<(), String> = run_virtual(seed, async {
        let mut keep: Vec<Box<dyn std::any::Any + Send>> = Vec::new();
        let net;
        match kind {
            Kind::Port | Kind::PortForwarded => {
                let (mut tx, mut rx, mut tx_b): (remoc::chmux::Sender, remoc::chmux::Receiver, Option<remoc::chmux::Sender>);
                if kind == Kind::Port {
                    let Conn { net: n, a, mut b, sched } = connect_pair(cfg_a.clone(), cfg_b.clone(), netcfg.clone(), &mut rng).await?;
                    net = n;
                    let ((tx1, rx_a), (tx_b1, rx1)) = open_port(&a.client, &mut b.listener).await?;
                    keep.push(Box::new((rx_a, a, b, sched)));
                    (tx, rx, tx_b) = (tx1, rx1, Some(tx_b1));
                } else {
                    // F creates the channel, its sender goes to A over one connection, its receiver to B over another
                    let (n1, f1, a1, s1) = connect_rch_hetero::<BinShip, (), (), BinShip>(rch_cfg(&mut rng), rch_cfg(&mut rng), draw_netcfg(&mut rng), &mut rng).await?;
                    let (n2, f2, b2, s2) = connect_rch_hetero::<BinShip, (), (), BinShip>(rch_cfg(&mut rng), rch_cfg(&mut rng), netcfg.clone(), &mut rng).await?;
                    let (btx, brx) = remoc::rch::bin::channel();
                    let RchEnd { tx: mut f1tx, rx: f1rx, conn: f1c } = f1;
                    let RchEnd { tx: a1tx, rx: mut a1rx, conn: a1c } = a1;
                    let RchEnd { tx: mut f2tx, rx: f2rx, conn: f2c } = f2;
                    let RchEnd { tx: b2tx, rx: mut b2rx, conn: b2c } = b2;
                    let Some((s, r)) = or_quiescent(async { tokio::join!(f1tx.send(BinShip::Tx(btx)), a1rx.recv()) }).await else { return Err("shipping the bin sender is pending".into()) };
                    s.map_err(|e| format!("shipping the bin sender: {e}"))?;
                    let Ok(Some(BinShip::Tx(atx))) = r else { return Err("bin sender did not arrive".into()) };
                    let Some((s, r)) = or_quiescent(async { tokio::join!(f2tx.send(BinShip::Rx(brx)), b2rx.recv()) }).await else { return Err("shipping the bin receiver is pending".into()) };
                    s.map_err(|e| format!("shipping the bin receiver: {e}"))?;
                    let Ok(Some(BinShip::Rx(brx))) = r else { return Err("bin receiver did not arrive".into()) };
                    let Some((t, r)) = or_quiescent(async { tokio::join!(atx.into_inner(), brx.into_inner()) }).await else { return Err("connecting the forwarded bin channel is pending".into()) };
                    tx = t.map_err(|e| format!("bin sender connect: {e}"))?;
                    rx = r.map_err(|e| format!("bin receiver connect: {e}"))?;
                    rx.set_max_data_size(4096);
                    tx_b = None;
                    net = n2;
                    keep.push(Box::new((n1, f1tx, f1rx, f1c, a1tx, a1rx, a1c, s1, f2tx, f2rx, f2c, b2tx, b2rx, b2c, s2)));
                }
                let net_r = net.clone();
                let closed = tx.closed();
                let h2 = hist.clone();
                crate::sched::spawn(async move {
                    closed.await;
                    h2.lock().unwrap().closed_future_resolved = true;
                    crate::simnet::bump_progress();
                });
                let h2 = hist.clone();
                let lens2 = lens.clone();
                let chunk = cfg_b.chunk_size as usize;
                let stask = crate::sched::spawn(async move {
                    for (i, len) in lens2.iter().enumerate() {
                        if (event == Event::SenderDrop || event == Event::SenderDropMidMessage) && i == pos {
                            if event == Event::SenderDropMidMessage {
                                // start a chunked message and abandon it by dropping the sender
                                let p = payload(1000 + i as u64, chunk * 2 + 1);
                                let cs = tx.send_chunks();
                                let _ = cs.send(Bytes::from(p)).await;
                            }
                            drop(tx);
                            return None;
                        }
                        let p = payload(i as u64 + 1, *len);
                        let r = if i % 2 == 1 && *len > 0 {
                            // chunk-by-chunk
                            let cs = tx.send_chunks();
                            match cs.send(Bytes::from(p[..p.len() / 2].to_vec())).await {
                                Ok(cs) => cs.send_final(Bytes::from(p[p.len() / 2..].to_vec())).await,
                                Err(e) => Err(e),
                            }
                        } else {
                            tx.send(Bytes::from(p)).await
                        };
                        crate::simnet::bump_progress();
                        match r {
                            Ok(()) => h2.lock().unwrap().sent_ok.push(i as u64 + 1),
                            Err(e) => {
                                h2.lock().unwrap().send_errs.push(format!("{e:?}"));
                                return Some(tx);
                            }
                        }
                    }
                    if event == Event::SenderDrop || event == Event::SenderDropMidMessage {
                        drop(tx);
                        return None;
                    }
                    Some(tx)
                });
                let h2 = hist.clone();
                let lens3 = lens.clone();
                let rtask = crate::sched::spawn(async move {
                    let lens = lens3;
                    let mut got = 0usize;
                    loop {
                        if event == Event::ReceiverClose && got == pos {
                            if pressure {
                                // clog this endpoint's path to the transport, cancel close() while it waits, retry
                                net_r.set_starved(crate::simnet::Dir::BA, true);
                                for _ in 0..6 {
                                    if let Some(t) = tx_b.as_mut() {
                                        let _ = t.try_send(&Bytes::from_static(b"x"));
                                    }
                                    tokio::task::yield_now().await;
                                }
                                let r = or_quiescent(crate::sched::CancelAt::new(rx.close(), 1 + (got as u32 % 3))).await;
                                let cancelled = !matches!(r, Some(Some(())));
                                net_r.set_starved(crate::simnet::Dir::BA, false);
                                if cancelled {
                                    h2.lock().unwrap().recv_errs.clear();
                                }
                            }
                            rx.close().await;
                        }
                        if event == Event::ReceiverDrop && got == pos {
                            drop(rx);
                            return;
                        }
                        let r = rx.recv().await;
                        crate::simnet::bump_progress();
                        match r {
                            Ok(Some(d)) => {
                                let v = Vec::from(d);
                                // identify by content
                                // identify by content, preferring the next message in sequence (short payloads are ambiguous)
                                let after = h2.lock().unwrap().received.last().copied().unwrap_or(0);
                                let id = (after + 1..=n_msgs as u64)
                                    .chain(1..=after)
                                    .find(|i| payload(*i, v.len()) == v && v.len() == lens[*i as usize - 1])
                                    .unwrap_or(0);
                                h2.lock().unwrap().received.push(id);
                                got += 1;
                            }
                            Ok(None) => {
                                h2.lock().unwrap().eos = true;
                                return;
                            }
                            Err(e) => {
                                h2.lock().unwrap().recv_errs.push(e.to_string());
                                return;
                            }
                        }
                    }
                });
                settle().await;
                // probe after quiescence: a later send must fail with the right classification
                if let Ok(Some(mut tx)) = or_quiescent(stask).await.unwrap_or(Ok(None)) {
                    if event == Event::ReceiverClose || event == Event::ReceiverDrop || event == Event::ConnCut {
                        let r = or_quiescent(tx.send(Bytes::from_static(b"probe"))).await;
                        let mut h = hist.lock().unwrap();
                        match r {
                            Some(Err(e)) => h.send_errs.push(format!("{e:?}")),
                            Some(Ok(())) => h.send_errs.push("PROBE-OK".into()),
                            None => h.send_errs.push("PROBE-PENDING".into()),
                        }
                        h.closed_reason = Some(format!("is_closed={}", tx.is_closed()));
                    }
                    // the sender goes away now: a receiver that keeps receiving must reach end-of-stream
                    drop(tx);
                }
                keep.push(Box::new(rtask));
            }
            Kind::Base | Kind::Lr | Kind::Mpsc => {
                let conn = connect_rch::<Ship, Ship>(cfg_a.clone(), cfg_b.clone(), netcfg.clone(), &mut rng).await?;
                let RchConn { net: n, a, b, sched } = conn;
                net = n;
                let RchEnd { tx: mut tx_ab, rx: rx_a, conn: ca } = a;
                let RchEnd { tx: tx_b, rx: mut rx_ab, conn: cb } = b;
                keep.push(Box::new((rx_a, tx_b, cb, sched)));
                let cut_now = Arc::new(tokio::sync::Notify::new());
                {
                    // the connection is lost when the receiver has obtained `pos` messages (or at quiescence)
                    let cut_now = cut_now.clone();
                    if event == Event::ConnCut {
                        crate::sched::spawn(async move {
                            let _ = or_quiescent(cut_now.notified()).await;
                            ca.abort();
                            crate::simnet::bump_progress();
                        });
                    } else {
                        keep.push(Box::new(ca));
                    }
                }
                macro_rules! recv_side {
                    ($rx:expr, |$r:ident| $close:expr, |$q:ident| $recv:expr, $conv:expr) => {{
                        let h2 = hist.clone();
                        let mut rx = $rx;
                        let cut_now = cut_now.clone();
                        crate::sched::spawn(async move {
                            let mut got = 0usize;
                            loop {
                                if event == Event::ConnCut && got == pos {
                                    cut_now.notify_one();
                                }
                                if event == Event::ReceiverClose && got == pos {
                                    let $r = &mut rx;
                                    $close;
                                }
                                if event == Event::ReceiverDrop && got == pos {
                                    drop(rx);
                                    return;
                                }
                                let r = {
                                    let $q = &mut rx;
                                    $recv
                                };
                                crate::simnet::bump_progress();
                                match r {
                                    Ok(Some(x)) => {
                                        if let Some(id) = $conv(x) {
                                            h2.lock().unwrap().received.push(id);
                                            got += 1;
                                        }
                                    }
                                    Ok(None) => {
                                        h2.lock().unwrap().eos = true;
                                        return;
                                    }
                                    Err(e) => {
                                        h2.lock().unwrap().recv_errs.push(e.to_string());
                                        if e.is_final() {
                                            return;
                                        }
                                    }
                                }
                            }
                        })
                    }};
                }
                match kind {
                    Kind::Base => {
                        let rt = recv_side!(rx_ab, |r| r.close().await, |q| q.recv().await, |x: Ship| if let Ship::Item(i) = x { Some(i.id) } else { None });
                        keep.push(Box::new(rt));
                        let h2 = hist.clone();
                        let lens2 = lens.clone();
                        let st = crate::sched::spawn(async move {
                            for (i, len) in lens2.iter().enumerate() {
                                if event == Event::SenderDrop && i == pos {
                                    drop(tx_ab);
                                    return None;
                                }
                                let r = tx_ab.send(Ship::Item(Item::new(i as u64 + 1, *len))).await;
                                crate::simnet::bump_progress();
                                match r {
                                    Ok(()) => h2.lock().unwrap().sent_ok.push(i as u64 + 1),
                                    Err(e) => {
                                        h2.lock().unwrap().send_errs.push(format!("{:?} closed={} final={}", e.kind, e.is_closed(), e.is_final()));
                                        return Some(tx_ab);
                                    }
                                }
                            }
                            if event == Event::SenderDrop {
                                drop(tx_ab);
                                return None;
                            }
                            Some(tx_ab)
                        });
                        settle().await;
                        if let Ok(Some(mut tx)) = or_quiescent(st).await.unwrap_or(Ok(None)) {
                            if event == Event::ReceiverClose || event == Event::ReceiverDrop || event == Event::ConnCut {
                                let r = or_quiescent(tx.send(Ship::Nothing)).await;
                                let mut h = hist.lock().unwrap();
                                match r {
                                    Some(Err(e)) => h.send_errs.push(format!("{:?} closed={} final={}", e.kind, e.is_closed(), e.is_final())),
                                    Some(Ok(())) => h.send_errs.push("PROBE-OK".into()),
                                    None => h.send_errs.push("PROBE-PENDING".into()),
                                }
                                h.closed_reason = Some(format!("is_closed={}", tx.is_closed()));
                                h.closed_future_resolved = or_quiescent(tx.closed()).await.is_some();
                            }
                            drop(tx);
                        }
                    }
                    Kind::Lr => {
                        let (mut ltx, lrx) = remoc::rch::lr::channel::<Item, remoc::codec::Default>();
                        let (sr, rr) = tokio::join!(tx_ab.send(Ship::LrRx(lrx)), rx_ab.recv());
                        sr.map_err(|e| e.to_string())?;
                        let Ok(Some(Ship::LrRx(lrx))) = rr else { return Err("lr receiver did not arrive".into()) };
                        keep.push(Box::new((tx_ab, rx_ab)));
                        let rt = recv_side!(lrx, |r| r.close().await, |q| q.recv().await, |x: Item| Some(x.id));
                        keep.push(Box::new(rt));
                        let h2 = hist.clone();
                        let lens2 = lens.clone();
                        let st = crate::sched::spawn(async move {
                            for (i, len) in lens2.iter().enumerate() {
                                if event == Event::SenderDrop && i == pos {
                                    drop(ltx);
                                    return None;
                                }
                                let r = ltx.send(Item::new(i as u64 + 1, *len)).await;
                                crate::simnet::bump_progress();
                                match r {
                                    Ok(()) => h2.lock().unwrap().sent_ok.push(i as u64 + 1),
                                    Err(e) => {
                                        h2.lock().unwrap().send_errs.push(format!("{:?} closed={} final={}", e.kind, e.is_closed(), e.is_final()));
                                        return Some(ltx);
                                    }
                                }
                            }
                            if event == Event::SenderDrop {
                                drop(ltx);
                                return None;
                            }
                            Some(ltx)
                        });
                        settle().await;
                        if let Ok(Some(mut tx)) = or_quiescent(st).await.unwrap_or(Ok(None)) {
                            if event == Event::ReceiverClose || event == Event::ReceiverDrop || event == Event::ConnCut {
                                let r = or_quiescent(tx.send(Item::new(999, 3))).await;
                                let mut h = hist.lock().unwrap();
                                match r {
                                    Some(Err(e)) => h.send_errs.push(format!("{:?} closed={} final={}", e.kind, e.is_closed(), e.is_final())),
                                    Some(Ok(())) => h.send_errs.push("PROBE-OK".into()),
                                    None => h.send_errs.push("PROBE-PENDING".into()),
                                }
                                h.closed_future_resolved = match or_quiescent(tx.closed()).await {
                                    Some(Ok(c)) => or_quiescent(c).await.is_some(),
                                    _ => false,
                                };
                            }
                            drop(tx);
                        }
                    }
                    _ => {
                        let (mtx, mrx) = mpsc::channel::<Item, remoc::codec::Default>(*rng.pick(&[1usize, 2, 8]));
                        let (sr, rr) = tokio::join!(tx_ab.send(Ship::MpscRx(mrx)), rx_ab.recv());
                        sr.map_err(|e| e.to_string())?;
                        let Ok(Some(Ship::MpscRx(mrx))) = rr else { return Err("mpsc receiver did not arrive".into()) };
                        keep.push(Box::new((tx_ab, rx_ab)));
                        let rt = recv_side!(mrx, |r| r.close(), |q| if poll_api { futures::future::poll_fn(|cx| q.poll_recv(cx)).await } else { q.recv().await }, |x: Item| Some(x.id));
                        keep.push(Box::new(rt));
                        // one sender task per clone; ids carry the clone index
                        let mut stasks = Vec::new();
                        for s in 0..n_senders {
                            let mtx = mtx.clone();
                            let h2 = hist.clone();
                            let lens2 = lens.clone();
                            stasks.push(crate::sched::spawn(async move {
                                let mut handles = Vec::new();
                                for (i, len) in lens2.iter().enumerate() {
                                    if event == Event::SenderDrop && i == pos {
                                        break;
                                    }
                                    let id = ((s as u64 + 1) << 16) | (i as u64 + 1);
                                    match mtx.send(Item::new(id, *len)).await {
                                        Ok(sending) => handles.push((id, sending)),
                                        Err(e) => {
                                            let mut h = h2.lock().unwrap();
                                            h.send_errs.push(format!("closed={} reason={:?} [{}]", e.is_closed(), e.closed_reason(), e));
                                            break;
                                        }
                                    }
                                    crate::simnet::bump_progress();
                                }
                                let reason = mtx.closed_reason();
                                let keep_open = event != Event::SenderDrop;
                                let mtx_keep = if keep_open { Some(mtx) } else { drop(mtx); None };
                                for (id, h) in handles {
                                    let r = match h.await {
                                        Ok(()) => "Ok".to_string(),
                                        Err(remoc::rch::SendingError::Dropped) => "Dropped".to_string(),
                                        Err(remoc::rch::SendingError::Send(e)) => format!("Send({:?})", e.kind),
                                    };
                                    crate::simnet::bump_progress();
                                    let mut g = h2.lock().unwrap();
                                    if r == "Ok" {
                                        g.sent_ok.push(id);
                                    }
                                    g.sending.push((id, r));
                                }
                                let _ = reason;
                                mtx_keep
                            }));
                        }
                        drop(mtx);
                        settle().await;
                        for st in stasks {
                            if let Some(Ok(Some(tx))) = or_quiescent(st).await {
                                if event == Event::ReceiverClose || event == Event::ReceiverDrop || event == Event::ConnCut {
                                    let closed = or_quiescent(tx.closed()).await.is_some();
                                    let mut h = hist.lock().unwrap();
                                    h.closed_future_resolved = closed;
                                    h.closed_reason = Some(format!("{:?}", tx.closed_reason()));
                                    match tx.try_send(Item::new(999, 1)) {
                                        Ok(_) => h.send_errs.push("PROBE-OK".into()),
                                        Err(e) => h.send_errs.push(format!("closed={} reason={:?}", e.is_closed(), if e.is_closed() { Some(ClosedReason::Closed) } else { None })),
                                    }
                                }
                                drop(tx);
                            }
                        }
                    }
                }
            }
        }
        settle().await;

        // ---- oracle ----
        let h = hist.lock().unwrap();
        let mut bad: Vec<(String, String)> = Vec::new();
        let name = format!("{kind:?}/{event:?}@{pos}/{n_msgs}");
        // what was received is in order and without duplicates per sender
        {
            let mut last: std::collections::HashMap<u64, u64> = std::collections::HashMap::new();
            for id in &h.received {
                let s = id >> 16;
                let seq = id & 0xffff;
                if *id == 0 {
                    bad.push(("C11:unknown-message-received".into(), format!("{name}: a received message matches no sent message")));
                }
                if let Some(p) = last.get(&s) {
                    if seq <= *p {
                        bad.push(("C11:duplicate-or-reordered".into(), format!("{name}: received {id:#x} after sequence number {p}")));
                    }
                }
                last.insert(s, seq);
            }
        }
        match event {
            Event::SenderDrop | Event::SenderDropMidMessage => {
                // everything that was sent, then end-of-stream
                let missing: Vec<&u64> = h.sent_ok.iter().filter(|i| !h.received.contains(i)).collect();
                if !h.eos {
                    bad.push(("C11:no-end-of-stream-after-sender-drop".into(), format!("{name}: all senders were dropped but the receiver has not reached end-of-stream at quiescence (errors: {:?})", h.recv_errs)));
                } else if !missing.is_empty() {
                    bad.push(("C11:end-of-stream-with-messages-missing".into(), format!("{name}: end-of-stream reached but completed sends {missing:?} were never received")));
                }
                if !h.recv_errs.is_empty() {
                    bad.push(("C11:sender-drop-misreported".into(), format!("{name}: receiver got errors {:?} for an orderly sender drop", h.recv_errs)));
                }
                if h.received.len() > h.sent_ok.len() + if kind == Kind::Mpsc { n_senders * n_msgs } else { 0 } {
                    bad.push(("C11:more-received-than-sent".into(), format!("{name}: received {:?}, completed sends {:?}", h.received, h.sent_ok)));
                }
            }
            Event::ReceiverClose => {
                // every completed send is still delivered; then end-of-stream; later sends fail as gracefully closed
                let missing: Vec<&u64> = h.sent_ok.iter().filter(|i| !h.received.contains(i)).collect();
                if !missing.is_empty() {
                    bad.push(("C11:completed-send-lost-at-close".into(), format!("{name}: sends {missing:?} completed (before the sender learned of the close) but were never delivered; received {:?}", h.received)));
                }
                if !h.eos && pos < n_msgs * n_senders {
                    bad.push(("C11:no-end-of-stream-after-close".into(), format!("{name}: receiver closed and kept receiving but has not reached end-of-stream at quiescence (errors {:?})", h.recv_errs)));
                }
                if let Some(e) = h.send_errs.iter().find(|e| e.contains("PROBE")) {
                    bad.push(("C11:send-after-close-not-refused".into(), format!("{name}: a send attempted after quiescence gave {e}")));
                }
                for e in &h.send_errs {
                    let graceful = e.contains("gracefully: true") || e.contains("closed=true");
                    if !graceful && !e.contains("PROBE") {
                        bad.push(("C11:close-misclassified".into(), format!("{name}: send failed with {e}, expected a graceful 'closed' classification")));
                    }
                }
                if kind == Kind::Mpsc {
                    if let Some(r) = &h.closed_reason {
                        if !r.contains("Closed") && pos < n_msgs * n_senders {
                            bad.push(("C11:close-misclassified".into(), format!("{name}: closed_reason() = {r}, expected Some(Closed)")));
                        }
                    }
                }
                if !h.closed_future_resolved && pos < n_msgs * n_senders && !h.send_errs.is_empty() {
                    bad.push(("C11:closed-future-pending".into(), format!("{name}: Sender::closed() has not resolved at quiescence")));
                }
            }
            Event::ConnCut => {
                // the receiver must learn of the failure: an error, never a clean end-of-stream
                if h.eos {
                    bad.push(("C11:connection-failure-reported-as-end-of-stream".into(), format!("{name}: the connection was lost with the sender alive, but the receiver saw a clean end-of-stream after {} messages", h.received.len())));
                } else if h.recv_errs.is_empty() {
                    bad.push(("C11:connection-failure-not-observed".into(), format!("{name}: the connection was lost but the receiver is still pending at quiescence")));
                }
                if let Some(e) = h.send_errs.iter().find(|e| e.contains("PROBE")) {
                    bad.push(("C11:send-after-failure-not-refused".into(), format!("{name}: a send attempted after the connection was lost gave {e}")));
                }
                for e in &h.send_errs {
                    if e.contains("gracefully: true") || e.contains("closed=true") {
                        bad.push(("C11:failure-misclassified".into(), format!("{name}: the connection failed, send error {e} is classified as a graceful close")));
                    }
                }
                if kind == Kind::Mpsc {
                    if let Some(r) = &h.closed_reason {
                        if !r.contains("Failed") {
                            bad.push(("C11:failure-misclassified".into(), format!("{name}: closed_reason() = {r}, expected Some(Failed)")));
                        }
                    }
                }
            }
            Event::ReceiverDrop => {
                if let Some(e) = h.send_errs.iter().find(|e| e.contains("PROBE")) {
                    bad.push(("C11:send-after-drop-not-refused".into(), format!("{name}: a send attempted after quiescence gave {e}")));
                }
                for e in &h.send_errs {
                    let graceful = e.contains("gracefully: true") || (e.contains("closed=true") && kind != Kind::Mpsc);
                    if graceful && kind == Kind::PortForwarded {
                        // The forwarder learns of "closed or dropped" downstream through one signal, closes its own
                        // receiver (gracefully) and drops it on the next failed send; the original sender's
                        // counterpart really was closed first and a graceful close is sticky. Recorded, not judged.
                        out.count("forwarded_drop_seen_as_graceful_close", 1);
                    } else if graceful {
                        bad.push(("C11:drop-misclassified".into(), format!("{name}: the receiver was dropped, send failed with {e} (classified as graceful close)")));
                    }
                }
                if kind == Kind::Mpsc {
                    if let Some(r) = &h.closed_reason {
                        if !r.contains("Dropped") && pos < n_msgs * n_senders {
                            bad.push(("C11:drop-misclassified".into(), format!("{name}: closed_reason() = {r}, expected Some(Dropped)")));
                        }
                    }
                }
                if !h.closed_future_resolved && pos < n_msgs * n_senders && !h.send_errs.is_empty() {
                    bad.push(("C11:closed-future-pending".into(), format!("{name}: Sender::closed() has not resolved at quiescence")));
                }
            }
        }
        // queued typed channel: per sender the Sending results are Ok..Ok Err..Err and the Ok ones were delivered
        if kind == Kind::Mpsc {
            for s in 0..n_senders as u64 {
                let rs: Vec<&(u64, String)> = h.sending.iter().filter(|x| x.0 >> 16 == s + 1).collect();
                let mut seen_err = false;
                for (id, r) in rs.iter().map(|x| (&x.0, &x.1)) {
                    if r == "Ok" {
                        if seen_err {
                            bad.push(("C11:sending-results-not-a-suffix".into(), format!("{name}: value {id:#x} was transmitted after an earlier value of the same sender was reported as dropped")));
                        }
                        if event != Event::ReceiverDrop && event != Event::ConnCut && !h.received.contains(id) {
                            bad.push(("C11:acknowledged-value-not-delivered".into(), format!("{name}: Sending handle of {id:#x} reported Ok but the value was never received")));
                        }
                    } else {
                        seen_err = true;
                    }
                }
            }
        }
        for (sig, d) in bad.into_iter().take(3) {
            let mut rp = replay.clone();
            rp["history"] = json!(format!("{:?}", *h));
            rp["trace_tail"] = net.trace_json(30);
            out.viol(sig, d, rp);
        }
        out.count("messages_sent_ok", h.sent_ok.len() as u64);
        out.count("messages_received", h.received.len() as u64);
        out.item("cases", format!("{kind:?}:{event:?}"));
        for e in &h.send_errs {
            out.item("send_error_classes", format!("{kind:?}:{event:?}:{}", e.chars().take(60).collect::<String>()));
        }
        wire_violations_to(&mut out, &net, "C11", &replay);
        let mut hh = Fnv::new();
        hh.add_str(&format!("{kind:?}{event:?}{pos}/{n_msgs}"));
        hh.add_u64(net.signature());
        for l in &lens {
            hh.add_u64(*l as u64);
        }
        out.case_hash = Some(hh.get());
        drop(keep);
        Ok(())
    });
    uninstall_h1();
    if let Err(e) = res {
        out.inconclusive = Some(e);
    }
    if run % 97 == 0 {
        out.sample = Some(json!({"case": replay, "history": format!("{:?}", *hist.lock().unwrap())}));
    }
    for p in crate::mem::panics_since(&prefix, panics0) {
        out.viol("C11:panic", format!("panic at {}: {}", p.location, p.message), replay.clone());
    }
    out
}
