//! Shared rig for the typed-channel (rch) level properties: connections with a base channel in each direction
//! over the simulated network, test item type with a serialisation "poison" switch.

use remoc::{
    RemoteSend,
    rch::base,
};
use serde::{Deserialize, Serialize};
use std::{io, sync::Arc};
use tokio::task::JoinHandle;

use crate::{
    clock::or_quiescent,
    rng::{Rng, payload},
    simnet::{Delivery, Net, NetCfg, run_scheduler},
    wiremon::{EpCfg, Mode, WireMon},
};

pub type ConnErr = remoc::chmux::ChMuxError<io::Error, io::Error>;

/// Serialisation fails when the flag is set (an item that "fails individually" on the sender side).
#[derive(Clone, Debug, PartialEq, Eq, Default)]
pub struct Poison(pub bool);

impl Serialize for Poison {
    fn serialize<S: serde::Serializer>(&self, s: S) -> Result<S::Ok, S::Error> {
        if self.0 {
            Err(serde::ser::Error::custom("poisoned item"))
        } else {
            s.serialize_bool(false)
        }
    }
}

impl<'de> Deserialize<'de> for Poison {
    fn deserialize<D: serde::Deserializer<'de>>(d: D) -> Result<Self, D::Error> {
        let b = bool::deserialize(d)?;
        Ok(Poison(b))
    }
}

/// Test value: unique id, self-describing payload, poison switch at the end (so that a streamed item fails
/// only after most of it was already transmitted).
#[derive(Clone, Debug, PartialEq, Eq, Serialize, Deserialize)]
pub struct Item {
    pub id: u64,
    pub data: Vec<u8>,
    pub tail: Poison,
}

impl Item {
    pub fn new(id: u64, len: usize) -> Self {
        Self { id, data: payload(id, len), tail: Poison(false) }
    }
    pub fn poisoned(id: u64, len: usize) -> Self {
        Self { id, data: payload(id, len), tail: Poison(true) }
    }
    pub fn valid(&self) -> bool {
        self.data == payload(self.id, self.data.len())
    }
    pub fn short(&self) -> String {
        format!("#{:x}/{}", self.id, self.data.len())
    }
}

pub struct RchEnd<Tx, Rx> {
    pub tx: base::Sender<Tx>,
    pub rx: base::Receiver<Rx>,
    pub conn: JoinHandle<Result<(), ConnErr>>,
}

pub struct RchConn<AB, BA> {
    pub net: Arc<Net>,
    pub a: RchEnd<AB, BA>,
    pub b: RchEnd<BA, AB>,
    pub sched: Option<JoinHandle<()>>,
}

/// Connects two real endpoints with `Connect::framed` over a fresh simulated network. `AB` is the type of
/// the base channel from A to B, `BA` the one from B to A. Both dispatchers are spawned.
pub async fn connect_rch<AB: RemoteSend, BA: RemoteSend>(
    cfg_a: remoc::Cfg, cfg_b: remoc::Cfg, netcfg: NetCfg, rng: &mut Rng,
) -> Result<RchConn<AB, BA>, String> {
    let mon = WireMon::new(EpCfg::from_cfg(&cfg_a), EpCfg::from_cfg(&cfg_b), Mode::Full);
    let net = Net::new(netcfg.clone(), Some(mon));
    let ((sa, ra), (sb, rb)) = net.endpoints();
    let sched = match netcfg.delivery {
        Delivery::Eager => None,
        _ => Some(crate::sched::spawn(run_scheduler(net.clone(), rng.fork(77)))),
    };
    let ta = crate::sched::spawn(async move { remoc::Connect::framed::<_, _, AB, BA, remoc::codec::Default>(cfg_a, sa, ra).await.map_err(|e| e.to_string()) });
    let tb = crate::sched::spawn(async move { remoc::Connect::framed::<_, _, BA, AB, remoc::codec::Default>(cfg_b, sb, rb).await.map_err(|e| e.to_string()) });
    let (ra_, rb_) = or_quiescent(async { tokio::join!(ta, tb) }).await.ok_or_else(|| "Connect::framed pending at quiescence".to_string())?;
    let (conn_a, tx_a, rx_a) = ra_.map_err(|e| e.to_string())?.map_err(|e| format!("A: {e}"))?;
    let (conn_b, tx_b, rx_b) = rb_.map_err(|e| e.to_string())?.map_err(|e| format!("B: {e}"))?;
    let ca = crate::sched::spawn(conn_a);
    let cb = crate::sched::spawn(conn_b);
    Ok(RchConn { net, a: RchEnd { tx: tx_a, rx: rx_a, conn: ca }, b: RchEnd { tx: tx_b, rx: rx_b, conn: cb }, sched })
}

/// Configuration for rch-level scenarios: small enough to straddle the buffered/streamed boundary.
pub fn rch_cfg(rng: &mut Rng) -> remoc::Cfg {
    let mut cfg = remoc::Cfg::default();
    cfg.connection_timeout = None;
    cfg.chunk_size = *rng.pick(&[16u32, 64, 256, 1024]);
    cfg.receive_buffer = *rng.pick(&[64u32, 100, 512, 4096]);
    cfg.max_data_size = *rng.pick(&[64usize, 200, 1000, 8192]);
    cfg.shared_send_queue = *rng.pick(&[1usize, 2, 16]);
    cfg.transport_send_queue = *rng.pick(&[1usize, 2, 16]);
    cfg.transport_receive_queue = *rng.pick(&[1usize, 2, 16]);
    cfg.max_ports = 256;
    cfg.connect_queue = 16;
    cfg
}

/// Like [`connect_rch`] but with independent item types on the two endpoints (A sends `ATx` and receives `ARx`,
/// B sends `BTx` and receives `BRx`): used to feed an endpoint values whose wire representation was produced by
/// a look-alike type.
pub async fn connect_rch_hetero<ATx: RemoteSend, ARx: RemoteSend, BTx: RemoteSend, BRx: RemoteSend>(
    cfg_a: remoc::Cfg, cfg_b: remoc::Cfg, netcfg: NetCfg, rng: &mut Rng,
) -> Result<(Arc<Net>, RchEnd<ATx, ARx>, RchEnd<BTx, BRx>, Option<JoinHandle<()>>), String> {
    let mon = WireMon::new(EpCfg::from_cfg(&cfg_a), EpCfg::from_cfg(&cfg_b), Mode::Full);
    let net = Net::new(netcfg.clone(), Some(mon));
    let ((sa, ra), (sb, rb)) = net.endpoints();
    let sched = match netcfg.delivery {
        Delivery::Eager => None,
        _ => Some(crate::sched::spawn(run_scheduler(net.clone(), rng.fork(77)))),
    };
    let ta = crate::sched::spawn(async move { remoc::Connect::framed::<_, _, ATx, ARx, remoc::codec::Default>(cfg_a, sa, ra).await.map_err(|e| e.to_string()) });
    let tb = crate::sched::spawn(async move { remoc::Connect::framed::<_, _, BTx, BRx, remoc::codec::Default>(cfg_b, sb, rb).await.map_err(|e| e.to_string()) });
    let (ra_, rb_) = or_quiescent(async { tokio::join!(ta, tb) }).await.ok_or_else(|| "Connect::framed pending at quiescence".to_string())?;
    let (conn_a, tx_a, rx_a) = ra_.map_err(|e| e.to_string())?.map_err(|e| format!("A: {e}"))?;
    let (conn_b, tx_b, rx_b) = rb_.map_err(|e| e.to_string())?.map_err(|e| format!("B: {e}"))?;
    let ca = crate::sched::spawn(conn_a);
    let cb = crate::sched::spawn(conn_b);
    Ok((net, RchEnd { tx: tx_a, rx: rx_a, conn: ca }, RchEnd { tx: tx_b, rx: rx_b, conn: cb }, sched))
}
