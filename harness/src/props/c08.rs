//! C08 Robustness against an arbitrary or hostile peer.
//!
//! The harness is the peer. A grammar-generated valid prefix drives the real endpoint's API into a state
//! (ports connecting / connected / half-closed / freed), then mutated, reordered, duplicated, truncated or
//! resource-exceeding frames follow. Oracles: process panic hook, pending-operation registry at quiescence,
//! echo probe ("still works"), heap counter for flood classes.

use bytes::Bytes;
use remoc::chmux::{self, ChMux, Received};
use serde_json::json;
use std::sync::{Arc, Mutex};

use super::common::*;
use crate::{
    clock::{or_quiescent, run_virtual, settle},
    evidence::RunOut,
    peer::{PeerRecv, real_vs_peer},
    refcodec::{self, HelloCfg, Msg},
    rng::{Fnv, Rng, payload},
    sched::Ops,
    simnet::NetCfg,
};

/// Echo service on a port pair of the real endpoint: data is sent back, port requests are accepted (and served too).
fn spawn_echo(pair: (chmux::Sender, chmux::Receiver), ops: Ops, depth: u32) {
    crate::sched::spawn(async move {
        let id = ops.begin("R:echo");
        let (mut tx, mut rx) = pair;
        let res = loop {
            match rx.recv_any().await {
                Ok(Some(Received::Data(d))) => {
                    if let Err(e) = tx.send(Bytes::from(Vec::from(d))).await {
                        break format!("send: {e}");
                    }
                }
                Ok(Some(Received::Chunks)) => loop {
                    match rx.recv_chunk().await {
                        Ok(Some(_)) => {}
                        _ => break,
                    }
                },
                Ok(Some(Received::Requests(reqs))) => {
                    for r in reqs {
                        let ops2 = ops.clone();
                        crate::sched::spawn(async move {
                            let id = ops2.begin("R:accept(port request)");
                            let r = r.accept().await;
                            ops2.end(id, format!("{:?}", r.as_ref().map(|_| ()).map_err(|e| e.to_string())));
                            if let Ok(p) = r {
                                if depth < 2 {
                                    spawn_echo(p, ops2, depth + 1);
                                }
                            }
                        });
                    }
                }
                Ok(None) => break "eos".into(),
                Err(e) => break format!("recv: {e}"),
            }
        };
        ops.end(id, res);
    });
}

#[derive(Default)]
struct PState {
    /// (peer port, real endpoint's port) of pairs opened by the valid prefix
    pairs: Vec<(u32, u32)>,
    /// client port of an OpenPort the real endpoint sent and that is unanswered
    r_connecting: Option<u32>,
    /// a pair whose every direction has been finished (freed on the real endpoint)
    freed: Option<(u32, u32)>,
    next_port: u32,
}

/// One hostile step: frames to send, label, and whether it legitimately disables the echo probe.
fn hostile(rng: &mut Rng, st: &mut PState, cfg_r: &remoc::chmux::Cfg) -> (Vec<Vec<u8>>, String, bool) {
    let some_pair = st.pairs.first().copied();
    let rport = some_pair.map(|p| p.1).unwrap_or(12345);
    let unknown = 0x7777_0000 + rng.below(1000) as u32;
    let enc = refcodec::encode;
    let kind = rng.below(30);
    match kind {
        0 => ((0..1).map(|_| (0..rng.below(40)).map(|_| rng.next() as u8).collect()).collect(), "random-bytes".into(), false),
        1 => {
            let mut f = enc(&Msg::PortCredits { port: rport, credits: 1 });
            f.truncate(rng.usize_below(f.len()));
            (vec![f], "truncated-frame".into(), false)
        }
        2 => (vec![vec![*rng.pick(&[0u8, 16, 17, 100, 255])]], "unknown-code".into(), false),
        3 => {
            let mut f = enc(&Msg::Data { port: rport, first: true, last: true });
            let n = f.len();
            f[n - 1] |= 0xf0;
            (vec![f, vec![1, 2, 3]], "unknown-flag-bits".into(), false)
        }
        4 => (vec![enc(&Msg::Hello { version: 3, cfg: HelloCfg { timeout_ms: 0, chunk_size: 16, receive_buffer: 16, connect_queue: 1 } })], "hello-again".into(), false),
        5 => (vec![enc(&Msg::Reset)], "reset".into(), false),
        6 => (vec![enc(&Msg::Data { port: rport, first: true, last: true }), enc(&Msg::Ping)], "data-without-payload".into(), false),
        7 => (vec![enc(&Msg::Data { port: unknown, first: true, last: true }), vec![1, 2, 3]], "data-unknown-port".into(), false),
        8 => match st.r_connecting {
            Some(c) => (vec![enc(&Msg::Data { port: c, first: true, last: true }), vec![9]], "data-connecting-port".into(), false),
            None => (vec![enc(&Msg::Ping)], "ping".into(), false),
        },
        9 => match st.freed {
            Some((_, r)) => (vec![enc(&Msg::Data { port: r, first: true, last: true }), vec![9]], "data-freed-port".into(), false),
            None => (vec![enc(&Msg::Ping)], "ping".into(), false),
        },
        10 => (vec![enc(&Msg::Data { port: rport, first: true, last: false }), vec![0u8; cfg_r.chunk_size as usize + 1]], "oversize-chunk".into(), false),
        11 => {
            // overdraw the credit window by one byte
            let mut v = Vec::new();
            let mut left = cfg_r.receive_buffer as usize + 1;
            let mut first = true;
            while left > 0 {
                let n = left.min(cfg_r.chunk_size as usize);
                v.push(enc(&Msg::Data { port: rport, first, last: false }));
                v.push(vec![7u8; n]);
                left -= n;
                first = false;
                if v.len() > 600 {
                    break;
                }
            }
            (v, "credit-overdraw-by-1".into(), false)
        }
        12 => (vec![enc(&Msg::PortCredits { port: rport, credits: u32::MAX }), enc(&Msg::PortCredits { port: rport, credits: u32::MAX })], "credits-overflow".into(), false),
        13 => (vec![enc(&Msg::PortCredits { port: unknown, credits: 5 })], "credits-unknown-port".into(), false),
        14 => {
            let c = st.next_port;
            st.next_port += 1;
            (vec![enc(&Msg::OpenPort { client_port: c, wait: true, id: Some(1) }), enc(&Msg::OpenPort { client_port: c, wait: true, id: Some(1) })], "duplicate-openport".into(), false)
        }
        15 => {
            let n = cfg_r.connect_queue as usize + 3;
            let v = (0..n)
                .map(|_| {
                    let c = st.next_port;
                    st.next_port += 1;
                    enc(&Msg::OpenPort { client_port: c, wait: rng.chance(50), id: None })
                })
                .collect();
            (v, "openport-flood".into(), false)
        }
        16 => (vec![enc(&Msg::PortOpened { client_port: unknown, server_port: 5 })], "portopened-unknown".into(), false),
        17 => (vec![enc(&Msg::Rejected { client_port: unknown, no_ports: rng.chance(50) })], "rejected-unknown".into(), false),
        18 => (vec![enc(&Msg::PortOpened { client_port: rport, server_port: 5 })], "portopened-connected-port".into(), false),
        19 => (vec![enc(&Msg::SendFinish { port: rport }), enc(&Msg::SendFinish { port: rport })], "sendfinish-twice".into(), false),
        20 => (vec![enc(&Msg::ReceiveClose { port: rport }), enc(&Msg::ReceiveClose { port: rport })], "receiveclose-twice".into(), false),
        21 => (vec![enc(&Msg::ReceiveFinish { port: rport }), enc(&Msg::ReceiveFinish { port: rport }), enc(&Msg::PortCredits { port: rport, credits: 1 })], "receivefinish-twice-then-credits".into(), false),
        22 => (vec![enc(&Msg::Goodbye), enc(&Msg::Ping), enc(&Msg::Data { port: rport, first: true, last: true }), vec![1]], "frames-after-goodbye".into(), true),
        23 => ((0..rng.range(1, 50)).map(|_| enc(&Msg::PortData { port: rport, first: true, last: true, wait: false, ports: vec![], ids: Some(vec![]) })).collect(), "zero-port-portdata".into(), false),
        24 => {
            let mut f = enc(&Msg::PortData { port: rport, first: true, last: true, wait: true, ports: vec![1, 2], ids: Some(vec![3, 4]) });
            f.truncate(f.len() - 4);
            (vec![f], "portdata-id-count-mismatch".into(), false)
        }
        25 => {
            let n = cfg_r.chunk_size as usize / 4 + 1 + rng.usize_below(50);
            let ports: Vec<u32> = (0..n as u32).map(|i| 0x6000_0000 + i).collect();
            (vec![enc(&Msg::PortData { port: rport, first: true, last: true, wait: false, ports, ids: None })], "huge-port-list".into(), false)
        }
        26 => (vec![enc(&Msg::PortData { port: rport, first: true, last: true, wait: false, ports: vec![0x6100_0001, 0x6100_0001], ids: None })], "portdata-duplicate-port".into(), false),
        27 => (vec![enc(&Msg::ClientFinish), enc(&Msg::ClientFinish)], "clientfinish-twice".into(), true),
        28 => (vec![enc(&Msg::ListenerFinish)], "listenerfinish".into(), false),
        _ => (vec![enc(&Msg::Ping)], "ping".into(), false),
    }
}

pub fn run_one(run: u64, seed: u64) -> RunOut {
    let mut rng = Rng::new(seed);
    let mut cfg_r = small_cfg(&mut rng, None);
    cfg_r.max_ports = 64;
    cfg_r.connect_queue = *rng.pick(&[1u16, 2, 16]);
    cfg_r.receive_buffer = cfg_r.receive_buffer.max(16);
    let pcfg = HelloCfg { timeout_ms: 0, chunk_size: 64, receive_buffer: 4096, connect_queue: 16 };
    let ver = *rng.pick(&[3u8, 3, 2]);
    let n_hostile = 1 + rng.usize_below(6);
    let hostile_handshake = rng.chance(12);
    let mut labels: Vec<String> = Vec::new();
    let replay0 = json!({"run": run, "seed": seed, "cfg_real": cfg_json(&cfg_r), "peer_version": ver, "hostile_handshake": hostile_handshake});
    let mut out = RunOut::default();
    let panics0 = crate::mem::panic_count();
    let prefix = crate::clock::thread_prefix();
    crate::sched::install_h1(rng.fork(1), *rng.pick(&[0u64, 20]), 0);
    let mut reached_established = false;
    run_virtual(seed, async {
        let (real, mut peer) = real_vs_peer(NetCfg::default(), &cfg_r, &pcfg);
        let (rs, rr) = real;
        let ops = Ops::new();
        let mut st = PState { next_port: 0x4000_0000, ..Default::default() };

        // ---- handshake ----
        let new_task = {
            let cfg = cfg_r.clone();
            let ops = ops.clone();
            crate::sched::spawn(async move {
                let id = ops.begin("R:ChMux::new");
                let r = ChMux::new(cfg, rs, rr).await;
                ops.end(id, format!("{:?}", r.as_ref().map(|_| ()).map_err(|e| e.to_string())));
                r
            })
        };
        if hostile_handshake {
            let variant = rng.below(5);
            labels.push(format!("handshake-{variant}"));
            match variant {
                0 => {
                    // foreign frames before Hello must be ignored
                    peer.send_raw(vec![0xff, 1, 2, 3]).await;
                    peer.send(&Msg::Ping).await;
                    peer.send_raw(vec![]).await;
                    peer.handshake_send(ver, &pcfg).await;
                }
                1 => {
                    let mut h = refcodec::encode(&Msg::Hello { version: ver, cfg: pcfg.clone() });
                    h[3] ^= 0x20; // bad magic
                    peer.send(&Msg::Reset).await;
                    peer.send_raw(h).await;
                    peer.handshake_send(ver, &pcfg).await;
                }
                2 => {
                    let mut h = refcodec::encode(&Msg::Hello { version: ver, cfg: pcfg.clone() });
                    h.truncate(rng.usize_below(h.len()));
                    peer.send_raw(h).await;
                    peer.handshake_send(ver, &pcfg).await;
                }
                3 => {
                    // invalid exchanged configuration values
                    peer.send(&Msg::Reset).await;
                    let bad = HelloCfg { timeout_ms: 0, chunk_size: *rng.pick(&[0u32, 3, 16]), receive_buffer: *rng.pick(&[0u32, 3, 16]), connect_queue: 0 };
                    peer.send_raw(refcodec::encode(&Msg::Hello { version: ver, cfg: bad })).await;
                    peer.handshake_send(ver, &pcfg).await;
                }
                _ => {
                    peer.handshake_send(*rng.pick(&[0u8, 1, 9, 255]), &pcfg).await;
                }
            }
        } else {
            peer.handshake_send(ver, &pcfg).await;
        }
        let (mux, client, mut listener) = match or_quiescent(new_task).await {
            Some(Ok(Ok(x))) => x,
            Some(Ok(Err(_))) => {
                out.count("handshake_rejected", 1);
                return;
            }
            _ => {
                out.count("handshake_pending", 1);
                return;
            }
        };
        let run_res: Arc<Mutex<Option<String>>> = Arc::new(Mutex::new(None));
        {
            let ops = ops.clone();
            let rr2 = run_res.clone();
            crate::sched::spawn(async move {
                let id = ops.begin("R:run");
                let r = mux.run().await;
                let s = format!("{:?}", r.map_err(|e| e.to_string()));
                *rr2.lock().unwrap() = Some(s.clone());
                ops.end(id, s);
            });
        }
        // real endpoint's application: accept loop with echo service, one outgoing connect
        {
            let ops = ops.clone();
            crate::sched::spawn(async move {
                let id = ops.begin("R:accept-loop");
                let res = loop {
                    match listener.accept().await {
                        Ok(Some(p)) => spawn_echo(p, ops.clone(), 0),
                        Ok(None) => break "closed".to_string(),
                        Err(e) => break format!("{e}"),
                    }
                };
                ops.end(id, res);
            });
        }
        let connect_out = rng.chance(50);
        if connect_out {
            let ops = ops.clone();
            let cl = client.clone();
            crate::sched::spawn(async move {
                let id = ops.begin("R:client.connect");
                let r = cl.connect().await;
                ops.end(id, format!("{:?}", r.as_ref().map(|_| ()).map_err(|e| e.to_string())));
                if let Ok(p) = r {
                    spawn_echo(p, ops, 1);
                }
            });
        }
        // skip the real endpoint's handshake frames
        let _ = peer.recv().await;
        let _ = peer.recv().await;

        // ---- valid prefix ----
        let n_pairs = 1 + rng.usize_below(2);
        for _ in 0..n_pairs {
            let c = st.next_port;
            st.next_port += 1;
            peer.send(&Msg::OpenPort { client_port: c, wait: true, id: (ver >= 3).then_some(c) }).await;
            let (got, skipped) = peer.recv_until(|m| matches!(m, Msg::PortOpened { client_port, .. } if *client_port == c)).await;
            for s in skipped {
                if let PeerRecv::Msg(Msg::OpenPort { client_port, .. }, _) = s {
                    st.r_connecting = Some(client_port);
                }
            }
            if let Some((Msg::PortOpened { server_port, .. }, _)) = got {
                st.pairs.push((c, server_port));
            }
        }
        if st.pairs.is_empty() {
            out.inconclusive = Some("valid prefix did not establish a pair".into());
            return;
        }
        reached_established = true;
        // optional: bring a second pair into the freed state (all four notifications)
        if st.pairs.len() > 1 && rng.chance(50) {
            let (p, r) = st.pairs.pop().unwrap();
            peer.send(&Msg::SendFinish { port: r }).await;
            peer.send(&Msg::ReceiveFinish { port: r }).await;
            let _ = peer.drain().await;
            st.freed = Some((p, r));
        } else if rng.chance(30) {
            // half-closed: peer finished sending on the first pair
            let (_, r) = st.pairs[0];
            peer.send(&Msg::ReceiveClose { port: r }).await;
        }
        // one echo to make sure the state is live
        if rng.chance(60) {
            let (_, r) = st.pairs[0];
            peer.send_data(r, true, true, &payload(1, 5)).await;
        }
        // collect the real endpoint's OpenPort if any
        for m in peer.drain().await {
            if let PeerRecv::Msg(Msg::OpenPort { client_port, .. }, _) = m {
                st.r_connecting = Some(client_port);
            }
        }

        // ---- hostile frames ----
        let mut disabling = false;
        for _ in 0..n_hostile {
            let (frames, label, dis) = hostile(&mut rng, &mut st, &cfg_r);
            disabling |= dis;
            // remoc's decoder ignores trailing bytes: any frame that starts with the ClientFinish or Goodbye code
            // is understood as that message and legitimately ends the listener / the connection
            disabling |= frames.iter().any(|f| matches!(f.first(), Some(13) | Some(15)));
            labels.push(label);
            for f in frames {
                if !peer.send_raw(f).await {
                    break;
                }
            }
            if rng.chance(40) {
                let _ = peer.drain().await;
            }
        }
        let _ = peer.drain().await;
        settle().await;

        let mut replay = replay0.clone();
        replay["hostile"] = json!(labels);
        replay["trace_tail"] = peer.net.trace_json(40);
        let terminated = run_res.lock().unwrap().clone();
        match terminated {
            Some(res) => {
                out.count("terminated_runs", 1);
                out.item("termination_results", res.chars().take(60).collect::<String>());
                // every local user must see an error / end by quiescence
                let pending = ops.pending();
                if !pending.is_empty() {
                    replay["pending"] = json!(pending);
                    replay["ops"] = json!(ops.all().iter().map(|o| format!("{} => {:?}", o.name, o.result)).collect::<Vec<_>>());
                    out.viol(
                        "C08:user-pending-after-termination",
                        format!("the dispatcher terminated ({res}) but {} local operation(s) are still pending at quiescence: {:?}", pending.len(), pending),
                        replay.clone(),
                    );
                }
            }
            None => {
                out.count("surviving_runs", 1);
                if !disabling {
                    // echo probe on a fresh pair
                    let c = st.next_port + 1000;
                    peer.send(&Msg::OpenPort { client_port: c, wait: true, id: (ver >= 3).then_some(c) }).await;
                    let (got, _) = peer.recv_until(|m| matches!(m, Msg::PortOpened { client_port, .. } if *client_port == c)).await;
                    let mut ok = false;
                    if let Some((Msg::PortOpened { server_port, .. }, _)) = got {
                        let msg = payload(77, 6);
                        peer.send_data(server_port, true, true, &msg).await;
                        let (echo, _) = peer.recv_until(|m| matches!(m, Msg::Data { port, .. } if *port == c)).await;
                        ok = matches!(echo, Some((_, Some(p))) if p[..] == msg[..]);
                    }
                    let now_terminated = run_res.lock().unwrap().clone();
                    if ok {
                        out.count("echo_probes_ok", 1);
                    } else if let Some(res) = now_terminated {
                        out.count("terminated_during_probe", 1);
                        out.item("termination_results", res.chars().take(60).collect::<String>());
                    } else {
                        replay["trace_tail"] = peer.net.trace_json(40);
                        replay["ops"] = json!(ops.all().iter().map(|o| format!("{} => {:?}", o.name, o.result)).collect::<Vec<_>>());
                        out.viol(
                            "C08:neither-working-nor-terminated",
                            "after the hostile frames the endpoint has not terminated, yet a fresh well-formed open + echo does not work".to_string(),
                            replay.clone(),
                        );
                    }
                }
            }
        }
        // anything the real endpoint emitted must decode strictly (W1 of the monitor)
        if let Some(v) = peer.net.with_mon(|m| m.violations.clone()) {
            for w in v.into_iter().take(2) {
                out.viol(format!("C08:wire:{}", w.code), format!("{} at frame {}: {}", w.code, w.seq, w.detail), replay.clone());
            }
        }
        drop(client);
    });
    crate::sched::uninstall_h1();
    for l in &labels {
        out.item("hostile_kinds", l.clone());
    }
    for p in crate::mem::panics_since(&prefix, panics0) {
        let mut rp = replay0.clone();
        rp["hostile"] = json!(labels);
        rp["panic"] = json!({"thread": p.thread, "message": p.message, "location": p.location});
        out.viol(format!("C08:panic:{}", p.location), format!("panic at {}: {} (hostile frames: {:?})", p.location, p.message, labels), rp);
    }
    if reached_established && !labels.is_empty() {
        let mut h = Fnv::new();
        for l in &labels {
            h.add_str(l);
        }
        h.add_u64(u64::from(ver));
        h.add_str(&cfg_class(&cfg_r));
        out.case_hash = Some(h.get());
    }
    if run < 3 {
        let mut s = replay0.clone();
        s["hostile"] = json!(labels);
        out.sample = Some(s);
    }
    out
}

/// Flood classes for the memory oracle. Each returns the frames of one burst.
pub const FLOODS: [&str; 9] = ["zero-port-portdata", "ping", "empty-data-within-credit", "openport-to-dropped-listener", "credits-small", "portdata-rejected-ports", "empty-data-beyond-credit", "data-beyond-credit", "portdata-never-last"];

/// Memory test of one flood class: N and then 3N more frames in bursts of <= 100 separated by quiescence;
/// heap sampled at quiescence. Must run alone in the process (process-wide heap counter).
pub fn flood_test(seed: u64, class: &str, n: usize) -> RunOut {
    let mut rng = Rng::new(seed);
    let mut cfg_r = mk_cfg(64, 64, 4096, (16, 16, 16), 16, 64, None);
    cfg_r.max_ports = 64;
    let pcfg = HelloCfg { timeout_ms: 0, chunk_size: 64, receive_buffer: 1 << 30, connect_queue: 1000 };
    let replay = json!({"seed": seed, "flood_class": class, "n": n, "cfg_real": cfg_json(&cfg_r)});
    let mut out = RunOut::default();
    crate::sched::install_h1(rng.fork(1), 0, 0);
    let class_s = class.to_string();
    run_virtual(seed, async {
        let (real, mut peer) = real_vs_peer(NetCfg { keep_trace: false, frame_budget: usize::MAX, ..Default::default() }, &cfg_r, &pcfg);
        let _ = peer.net.take_mon();
        let (rs, rr) = real;
        let new_task = crate::sched::spawn(ChMux::new(cfg_r.clone(), rs, rr));
        peer.handshake_send(3, &pcfg).await;
        let Some(Ok(Ok((mux, client, mut listener)))) = or_quiescent(new_task).await else {
            out.inconclusive = Some("handshake failed".into());
            return;
        };
        let run_task = crate::sched::spawn(mux.run());
        // one pair whose receiver on the real endpoint is kept but never polled (worst case for queues)
        peer.send(&Msg::OpenPort { client_port: 1, wait: true, id: Some(1) }).await;
        let Some(Ok(Some(pair))) = or_quiescent(listener.accept()).await else {
            out.inconclusive = Some("accept failed".into());
            return;
        };
        let (got, _) = peer.recv_until(|m| matches!(m, Msg::PortOpened { .. })).await;
        let Some((Msg::PortOpened { server_port: rport, .. }, _)) = got else {
            out.inconclusive = Some("no PortOpened".into());
            return;
        };
        let mut idle_pair = Some(pair);
        if class_s == "portdata-never-last" {
            // an active receiver that keeps receiving (non-final errors are skipped), dropping what it gets
            let (tx, mut rx) = idle_pair.take().unwrap();
            crate::sched::spawn(async move {
                let _tx = tx;
                loop {
                    match rx.recv_any().await {
                        Ok(Some(_)) => {}
                        Ok(None) => break,
                        Err(e) if e.is_final() => break,
                        Err(_) => {}
                    }
                    crate::simnet::bump_progress();
                }
            });
        }
        let _idle = idle_pair;
        if class_s == "openport-to-dropped-listener" {
            drop(listener);
        }
        let _ = peer.drain().await;
        let mut sent = 0usize;
        let mut next_port = 0x5000_0000u32;
        let mut samples = Vec::new();
        let mut data_credit_used = 0usize;
        for target in [n, 4 * n] {
            while sent < target {
                let burst = if class_s == "portdata-never-last" { 16 } else { 100 }.min(target - sent);
                for _ in 0..burst {
                    match class_s.as_str() {
                        "zero-port-portdata" => {
                            peer.send(&Msg::PortData { port: rport, first: true, last: true, wait: false, ports: vec![], ids: Some(vec![]) }).await;
                        }
                        "ping" => {
                            peer.send(&Msg::Ping).await;
                        }
                        "empty-data-within-credit" => {
                            // costs 1 credit each; stay within the window (no credits come back: idle receiver)
                            if data_credit_used + 1 <= cfg_r.receive_buffer as usize {
                                peer.send_data(rport, true, true, &[]).await;
                                data_credit_used += 1;
                            } else {
                                peer.send(&Msg::Ping).await;
                            }
                        }
                        "openport-to-dropped-listener" => {
                            peer.send(&Msg::OpenPort { client_port: next_port, wait: false, id: None }).await;
                            next_port += 1;
                        }
                        "empty-data-beyond-credit" => {
                            // ignores the credit window: a correct endpoint ends the connection with a protocol error
                            if !peer.send_data(rport, true, true, &[]).await {
                                peer.sink_failed = true;
                            }
                        }
                        "data-beyond-credit" => {
                            if !peer.send_data(rport, false, false, &[7]).await {
                                peer.sink_failed = true;
                            }
                        }
                        "portdata-never-last" => {
                            // chunks of a port message that never ends; the receiver consumes them, so credits come back
                            peer.send(&Msg::PortData { port: rport, first: sent == 0, last: false, wait: false, ports: vec![next_port], ids: None }).await;
                            next_port += 1;
                        }
                        "credits-small" => {
                            peer.send(&Msg::PortCredits { port: rport, credits: 1 }).await;
                        }
                        _ => {
                            // ports over the port: within credit only 16 fit (64 bytes / 4); afterwards pings
                            if data_credit_used + 4 <= cfg_r.receive_buffer as usize {
                                peer.send(&Msg::PortData { port: rport, first: true, last: true, wait: false, ports: vec![next_port], ids: None }).await;
                                next_port += 1;
                                data_credit_used += 4;
                            } else {
                                peer.send(&Msg::Ping).await;
                            }
                        }
                    }
                    sent += 1;
                }
                // keep reading what the endpoint answers, reach quiescence
                let _ = peer.drain().await;
            }
            settle().await;
            samples.push((sent, crate::mem::live_bytes()));
        }
        let alive = !run_task.is_finished();
        out.count("flood_frames_sent", sent as u64);
        out.item("flood_heap_samples", format!("{class_s}: {samples:?} alive={alive}"));
        if samples.len() == 2 {
            let growth = samples[1].1 as i64 - samples[0].1 as i64;
            out.max("flood_max_growth_bytes", growth.max(0) as u64);
            let frames = (samples[1].0 - samples[0].0) as i64;
            // bounded overhead: a fixed slack plus less than one byte per 8 hostile frames
            if alive && growth > 16 * 1024 + frames / 8 {
                let sig = if class_s == "zero-port-portdata" { "C08:portdata-empty:unbounded-queue".to_string() } else { format!("C08:unbounded-growth:{class_s}") };
                out.viol(
                    sig,
                    format!("heap grew by {growth} bytes while {frames} more '{class_s}' frames were received (receive_buffer {} bytes, receiver idle, endpoint still running)", cfg_r.receive_buffer),
                    replay.clone(),
                );
            }
        }
        drop(client);
    });
    crate::sched::uninstall_h1();
    let mut h = Fnv::new();
    h.add_str(class);
    out.case_hash = Some(h.get());
    out
}

/// Stream transport with hostile length prefixes: the endpoint must fail the connection without a panic and
/// without allocating anything near the announced length.
pub fn stream_hostile(seed: u64, variant: u64) -> RunOut {
    use tokio::io::AsyncWriteExt;
    let mut rng = Rng::new(seed);
    let cfg_r = mk_cfg(64, 64, 4096, (16, 16, 16), 16, 64, None);
    let prefix: [u8; 4] = match variant {
        0 => [0xff, 0xff, 0xff, 0xff],
        1 => ((16 + cfg_r.chunk_size + 1) as u32).to_le_bytes(),
        2 => [0x00, 0x00, 0x00, 0x80],
        _ => [0xff, 0xff, 0xff, 0x7f],
    };
    let after_handshake = variant % 2 == 0;
    let replay = json!({"seed": seed, "stream_hostile_prefix": format!("{prefix:02x?}"), "after_handshake": after_handshake});
    let mut out = RunOut::default();
    let panics0 = crate::mem::panic_count();
    let prefix_t = crate::clock::thread_prefix();
    crate::sched::install_h1(rng.fork(1), 0, 0);
    let heap0 = crate::mem::live_bytes();
    run_virtual(seed, async {
        let (real_side, peer_side) = tokio::io::duplex(256);
        let (r_read, r_write) = tokio::io::split(real_side);
        let (mut p_read, mut p_write) = tokio::io::split(peer_side);
        let cfg2 = cfg_r.clone();
        let result: Arc<Mutex<Option<String>>> = Arc::new(Mutex::new(None));
        let res2 = result.clone();
        crate::sched::spawn(async move {
            let r = remoc::Connect::io::<_, _, u32, u32, remoc::codec::Default>(cfg2, r_read, r_write).await;
            match r {
                Ok((conn, _tx, _rx)) => {
                    let r = conn.await;
                    *res2.lock().unwrap() = Some(format!("connected, then {:?}", r.map_err(|e| e.to_string())));
                }
                Err(e) => *res2.lock().unwrap() = Some(format!("Err({e})")),
            }
            crate::simnet::bump_progress();
        });
        // keep reading so that the endpoint's writes never block
        crate::sched::spawn(async move {
            use tokio::io::AsyncReadExt;
            let mut buf = [0u8; 256];
            while let Ok(n) = p_read.read(&mut buf).await {
                if n == 0 {
                    break;
                }
                crate::simnet::bump_progress();
            }
        });
        let pcfg = HelloCfg { timeout_ms: 0, chunk_size: 64, receive_buffer: 256, connect_queue: 4 };
        let mut bytes = Vec::new();
        if after_handshake {
            for m in [Msg::Reset, Msg::Hello { version: 3, cfg: pcfg }] {
                let f = refcodec::encode(&m);
                bytes.extend_from_slice(&(f.len() as u32).to_le_bytes());
                bytes.extend_from_slice(&f);
            }
        }
        bytes.extend_from_slice(&prefix);
        bytes.extend_from_slice(&[1, 2, 3, 4, 5, 6, 7, 8]);
        let w = crate::sched::spawn(async move {
            let _ = p_write.write_all(&bytes).await;
            let _ = p_write.flush().await;
            crate::simnet::bump_progress();
            // keep the pipe open
            futures::future::pending::<()>().await;
        });
        settle().await;
        let r = result.lock().unwrap().clone();
        out.count("stream_hostile_runs", 1);
        match r {
            Some(s) => out.item("stream_hostile_results", format!("{prefix:02x?}: {s}").chars().take(90).collect::<String>()),
            None => out.viol(
                "C08:stream-length-prefix-not-rejected",
                format!("length prefix {prefix:02x?} on the stream transport: the connection neither failed nor made progress by quiescence"),
                replay.clone(),
            ),
        }
        let peak = crate::mem::live_bytes().saturating_sub(heap0);
        out.max("stream_hostile_heap_bytes", peak as u64);
        if peak > 4 << 20 {
            out.viol("C08:stream-length-prefix-allocation", format!("{peak} bytes allocated after a hostile length prefix {prefix:02x?}"), replay.clone());
        }
        drop(w);
    });
    crate::sched::uninstall_h1();
    for p in crate::mem::panics_since(&prefix_t, panics0) {
        out.viol(format!("C08:panic:{}", p.location), format!("panic at {}: {} (hostile length prefix)", p.location, p.message), replay.clone());
    }
    let mut h = Fnv::new();
    h.add_u64(variant + 100);
    out.case_hash = Some(h.get());
    out
}
