//! C07 Orderly shutdown and reclamation of ports and tasks.

use bytes::Bytes;
use remoc::chmux::{self, PortReq, Received};
use serde_json::json;

use super::common::*;
use crate::{
    clock::{or_quiescent, run_virtual, settle},
    evidence::RunOut,
    rng::{Fnv, Rng, payload},
    sched::{install_h1, uninstall_h1},
};

enum Obj {
    Tx(chmux::Sender),
    Rx(chmux::Receiver),
    Client(chmux::Client),
    Listener(chmux::Listener),
    Connect(chmux::Connect),
    Request(chmux::Request),
}

impl Obj {
    fn kind(&self) -> &'static str {
        match self {
            Obj::Tx(_) => "tx",
            Obj::Rx(_) => "rx",
            Obj::Client(_) => "client",
            Obj::Listener(_) => "listener",
            Obj::Connect(_) => "connect",
            Obj::Request(_) => "request",
        }
    }
}

pub fn run_one(run: u64, seed: u64) -> RunOut {
    let mut rng = Rng::new(seed);
    let mut cfg_a = small_cfg(&mut rng, None);
    let mut cfg_b = small_cfg(&mut rng, None);
    cfg_a.max_ports = *rng.pick(&[1u32, 2, 3, 8]);
    cfg_b.max_ports = *rng.pick(&[1u32, 2, 3, 8]);
    cfg_a.connect_queue = *rng.pick(&[1u16, 2, 4]);
    cfg_b.connect_queue = *rng.pick(&[1u16, 2, 4]);
    cfg_a.receive_buffer = cfg_a.receive_buffer.max(8);
    cfg_b.receive_buffer = cfg_b.receive_buffer.max(8);
    let mut netcfg = draw_netcfg(&mut rng);
    // back-pressure variant: B's path to the transport is clogged while B accepts (and the accept is cancelled)
    let pressure = rng.chance(30);
    if pressure {
        cfg_b.shared_send_queue = 1;
        cfg_b.transport_send_queue = 1;
        netcfg.capacity = 1;
    }
    let h1 = *rng.pick(&[0u64, 20, 50]);
    let victim = *rng.pick(&[0u64, 2, 3]);
    let k_pairs = rng.usize_below(cfg_a.max_ports.min(cfg_b.max_ports) as usize + 1).min(4);
    let traffic = rng.chance(70);
    let leave_pending_connect = pressure || rng.chance(60);
    let replay = json!({"run": run, "seed": seed, "cfg_a": cfg_json(&cfg_a), "cfg_b": cfg_json(&cfg_b), "net": netcfg_class(&netcfg),
        "h1_pct": h1, "victim_mod": victim, "pairs": k_pairs, "traffic": traffic, "pending_connect": leave_pending_connect});
    let mut out = RunOut::default();
    let panics0 = crate::mem::panic_count();
    let prefix = crate::clock::thread_prefix();
    let base_tasks = remoc::exec::verif::live_tasks_local();
    install_h1(rng.fork(1), h1, victim);
    let mut drop_order: Vec<String> = Vec::new();
    let res: Result<(), String> = run_virtual(seed, async {
        let Conn { net, a, b, sched: _s } = connect_pair(cfg_a.clone(), cfg_b.clone(), netcfg.clone(), &mut rng).await?;
        let End { client: client_a, listener: listener_a, run: run_a } = a;
        let End { client: client_b, listener: mut listener_b, run: run_b } = b;
        let alloc_a = client_a.port_allocator();
        let alloc_b = client_b.port_allocator();
        let mut objs: Vec<(char, Obj)> = Vec::new();
        let mut late: Option<(chmux::Connect, chmux::Request)> = None;

        // open pairs: first via client, further ones partly as ports sent over the first pair
        let mut first_pair: Option<(chmux::Sender, chmux::Receiver, chmux::Sender, chmux::Receiver)> = None;
        for i in 0..k_pairs {
            if i > 0 && rng.chance(40) {
                if let Some((tx_a, _rx_a, _tx_b, rx_b)) = first_pair.as_mut() {
                    if let Some(p) = alloc_a.try_allocate() {
                        let cs = or_quiescent(tx_a.connect(vec![PortReq::new(p)], true)).await;
                        if let Some(Ok(mut cs)) = cs {
                            let c = cs.pop().unwrap();
                            match or_quiescent(rx_b.recv_any()).await {
                                Some(Ok(Some(Received::Requests(mut reqs)))) => {
                                    let r = reqs.pop().unwrap();
                                    let acc = crate::sched::spawn(r.accept());
                                    if let (Some(Ok(pa)), Some(Ok(Ok(pb)))) = (or_quiescent(c).await, or_quiescent(acc).await) {
                                        objs.push(('A', Obj::Tx(pa.0)));
                                        objs.push(('A', Obj::Rx(pa.1)));
                                        objs.push(('B', Obj::Tx(pb.0)));
                                        objs.push(('B', Obj::Rx(pb.1)));
                                        out.count("pairs_via_port", 1);
                                    }
                                }
                                _ => {}
                            }
                            continue;
                        }
                    }
                }
            }
            let ((ta, ra), (tb, rb)) = open_port(&client_a, &mut listener_b).await?;
            if first_pair.is_none() {
                first_pair = Some((ta, ra, tb, rb));
            } else {
                objs.push(('A', Obj::Tx(ta)));
                objs.push(('A', Obj::Rx(ra)));
                objs.push(('B', Obj::Tx(tb)));
                objs.push(('B', Obj::Rx(rb)));
            }
        }
        if let Some((mut ta, ra, tb, mut rb)) = first_pair.take() {
            if traffic {
                let n = 1 + rng.usize_below(3);
                for i in 0..n {
                    let len = rng.usize_below(cfg_b.receive_buffer as usize + 1);
                    let _ = or_quiescent(ta.send(Bytes::from(payload(i as u64, len)))).await;
                    if rng.chance(60) {
                        let _ = or_quiescent(rb.recv_any()).await;
                    }
                }
            }
            objs.push(('A', Obj::Tx(ta)));
            objs.push(('A', Obj::Rx(ra)));
            objs.push(('B', Obj::Tx(tb)));
            objs.push(('B', Obj::Rx(rb)));
        }
        // an unanswered request / pending connect
        if leave_pending_connect {
            if let Some(p) = alloc_a.try_allocate() {
                if let Some(Ok(c)) = or_quiescent(client_a.connect_ext(Some(PortReq::new(p)), rng.chance(50))).await {
                    let mut c = Some(c);
                    if rng.chance(50) {
                        if let Some(Ok(Some(r))) = or_quiescent(listener_b.inspect()).await {
                            if !pressure && rng.chance(40) {
                                late = Some((c.take().unwrap(), r));
                            } else {
                                objs.push(('B', Obj::Request(r)));
                            }
                        }
                    }
                    if let Some(c) = c {
                        objs.push(('A', Obj::Connect(c)));
                    }
                }
            }
        }
        // a burst of concurrent connect requests, more than the listening side's connect_queue admits at once;
        // those that got as far as a pending `Connect` are dropped later with everything else, the others (still
        // waiting for a connect credit or a local port) are dropped right away
        if rng.chance(40) {
            let k = cfg_b.connect_queue as usize + 1 + rng.usize_below(3);
            let started: std::sync::Arc<std::sync::Mutex<Vec<chmux::Connect>>> = Default::default();
            let mut tasks = Vec::new();
            for _ in 0..k {
                let c = client_a.clone();
                let st = started.clone();
                tasks.push(crate::sched::spawn(async move {
                    if let Ok(conn) = c.connect_ext(None, true).await {
                        st.lock().unwrap().push(conn);
                    }
                    crate::simnet::bump_progress();
                }));
            }
            settle().await;
            for t in tasks {
                t.abort();
                let _ = t.await;
            }
            let got: Vec<chmux::Connect> = std::mem::take(&mut *started.lock().unwrap());
            out.count("burst_connects_started", k as u64);
            out.count("burst_connects_pending", got.len() as u64);
            for c in got {
                objs.push(('A', Obj::Connect(c)));
            }
        }
        for _ in 0..rng.below(3) {
            objs.push(('A', Obj::Client(client_a.clone())));
            objs.push(('B', Obj::Client(client_b.clone())));
        }
        objs.push(('A', Obj::Client(client_a)));
        objs.push(('B', Obj::Client(client_b)));
        objs.push(('A', Obj::Listener(listener_a)));
        objs.push(('B', Obj::Listener(listener_b)));
        let both_sides = objs.iter().any(|o| o.0 == 'A' && matches!(o.1, Obj::Tx(_))) && k_pairs >= 2;

        // drop everything in PRNG order, interleaved with the network schedule
        rng.shuffle(&mut objs);
        let stalls = !pressure && rng.chance(50);
        let mut starved: Option<crate::simnet::Dir> = None;
        let mut pressure_left = 0usize;
        if pressure && objs.iter().any(|o| matches!(o.1, Obj::Request(_))) {
            // B's port halves first (their drop notifications fill B's queues behind the stalled transport),
            // then the request, then everything else
            let (mut first, rest): (Vec<_>, Vec<_>) = objs.into_iter().partition(|o| o.0 == 'B' && matches!(o.1, Obj::Tx(_) | Obj::Rx(_)));
            let (req, mut rest): (Vec<_>, Vec<_>) = rest.into_iter().partition(|o| matches!(o.1, Obj::Request(_)));
            pressure_left = first.len() + req.len();
            first.extend(req);
            first.append(&mut rest);
            objs = first;
            net.set_starved(crate::simnet::Dir::BA, true);
            starved = Some(crate::simnet::Dir::BA);
            out.count("pressure_runs", 1);
        }
        for (side, o) in objs {
            if pressure_left > 0 {
                pressure_left -= 1;
            } else if pressure {
                if let Some(d) = starved.take() {
                    net.set_starved(d, false);
                }
            }
            // transport stalls make the dispatcher's event queue back up while handles are dropped
            if stalls && rng.chance(25) {
                match starved.take() {
                    Some(d) => net.set_starved(d, false),
                    None => {
                        let d = if rng.chance(50) { crate::simnet::Dir::AB } else { crate::simnet::Dir::BA };
                        net.set_starved(d, true);
                        starved = Some(d);
                    }
                }
            }
            drop_order.push(format!("{side}:{}", o.kind()));
            match o {
                Obj::Rx(mut rx) => {
                    if rng.chance(30) {
                        let _ = or_quiescent(rx.close()).await;
                    }
                    drop(rx);
                }
                Obj::Request(req) if pressure || rng.chance(60) => {
                    // an accept that is cancelled at a random poll (the request's fate is then decided by the drop)
                    let n = rng.below(5) as u32;
                    drop_order.push(format!("{side}:accept-cancelled@{n}"));
                    let r = or_quiescent(crate::sched::CancelAt::new(req.accept(), n)).await;
                    drop(r);
                    out.count("cancelled_accepts", 1);
                }
                o => drop(o),
            }
            match if pressure_left > 0 { rng.below(3) } else { rng.below(4) } {
                0 => {}
                1 => tokio::task::yield_now().await,
                2 => {
                    for _ in 0..rng.below(8) {
                        tokio::task::yield_now().await;
                    }
                }
                _ => {
                    settle().await;
                }
            }
        }
        if let Some(d) = starved.take() {
            net.set_starved(d, false);
        }
        settle().await;

        // a request that the listening side took out of the queue but has not answered keeps the connection
        // alive: accepted after everything else is gone it must still yield a working port
        if let Some((c, r)) = late.take() {
            drop_order.push("B:late-accept".into());
            let acc = crate::sched::spawn(r.accept());
            let (cr, ar) = (or_quiescent(c).await, or_quiescent(acc).await);
            match (cr, ar) {
                (Some(Ok(pa)), Some(Ok(Ok(pb)))) => {
                    out.count("late_accepts_ok", 1);
                    drop((pa, pb));
                }
                (cr, ar) => {
                    let mut rp = replay.clone();
                    rp["drop_order"] = json!(drop_order);
                    rp["trace_tail"] = net.trace_json(30);
                    out.viol(
                        "C07:kept-request-refused",
                        format!(
                            "a request that the listening side had taken out of the queue (unanswered) was accepted after every other handle of both endpoints had been dropped: connect gives {:?}, accept gives {:?}",
                            cr.map(|r| r.map(|_| ()).map_err(|e| e.to_string())),
                            ar.map(|r| r.map(|r| r.map(|_| ()).map_err(|e| e.to_string())).map_err(|e| e.to_string()))
                        ),
                        rp,
                    );
                }
            }
            settle().await;
        }

        let mut rp = replay.clone();
        rp["drop_order"] = json!(drop_order);
        for (name, h) in [("A", run_a), ("B", run_b)] {
            if !h.is_finished() {
                let mut r = rp.clone();
                r["trace_tail"] = net.trace_json(40);
                out.viol(
                    "C07:dispatcher-not-terminated",
                    format!("dispatcher {name} has not terminated at quiescence although every port, client and listener was dropped on both endpoints"),
                    r,
                );
            } else {
                match h.await {
                    Ok(Ok(())) => out.count("dispatchers_ok", 1),
                    Ok(Err(e)) => {
                        let mut r = rp.clone();
                        r["trace_tail"] = net.trace_json(40);
                        out.viol("C07:dispatcher-error", format!("dispatcher {name} ended with an error after an orderly shutdown: {e}"), r);
                    }
                    Err(e) => out.viol("C07:dispatcher-panic", format!("dispatcher {name} task failed: {e}"), rp.clone()),
                }
            }
        }
        // every helper task has ended once both dispatchers are gone
        settle().await;
        let live = remoc::exec::verif::live_tasks_local();
        out.count("task_count_probes", 1);
        if live != base_tasks {
            let mut r = rp.clone();
            r["trace_tail"] = net.trace_json(20);
            out.viol(
                "C07:tasks-alive-after-shutdown",
                format!("{} internally spawned tasks are still alive at quiescence after the orderly shutdown (baseline {base_tasks})", live),
                r,
            );
        }
        // port numbers are all released
        for (name, alloc, max) in [("A", &alloc_a, cfg_a.max_ports), ("B", &alloc_b, cfg_b.max_ports)] {
            let mut held = Vec::new();
            for _ in 0..max {
                match alloc.try_allocate() {
                    Some(p) => held.push(p),
                    None => break,
                }
            }
            if held.len() as u32 != max {
                out.viol(
                    "C07:port-numbers-leaked",
                    format!("endpoint {name}: only {} of max_ports={max} port numbers can be allocated after everything was closed", held.len()),
                    rp.clone(),
                );
            }
            out.count("allocator_probes", 1);
        }
        wire_violations_to(&mut out, &net, "C07", &rp);
        wire_stats_to(&mut out, &net);
        out.item("net_signature", format!("{:016x}", net.signature()));
        if both_sides {
            let mut h = Fnv::new();
            for d in &drop_order {
                h.add_str(d);
            }
            h.add_u64(net.signature());
            out.case_hash = Some(h.get());
        }
        Ok(())
    });
    uninstall_h1();
    // every internally spawned task is gone (the runtime was dropped too, so this mainly detects
    // accounting drift; the interesting check is the one at quiescence below)
    let live = remoc::exec::verif::live_tasks_local();
    if live != base_tasks {
        out.viol("C07:tasks-leaked", format!("{} internal tasks alive after the run (baseline {base_tasks})", live), replay.clone());
    }
    if let Err(e) = res {
        out.inconclusive = Some(format!("setup failed: {e}"));
    }
    if run < 3 {
        let mut s = replay.clone();
        s["drop_order"] = json!(drop_order);
        out.sample = Some(s);
    }
    for p in crate::mem::panics_since(&prefix, panics0) {
        let mut rp = replay.clone();
        rp["panic"] = json!({"thread": p.thread, "message": p.message, "location": p.location});
        out.viol("C07:panic", format!("panic at {}: {}", p.location, p.message), rp);
    }
    out
}

/// Repeated open/transfer/close cycles on one connection: no ports, tasks or heap may accumulate.
/// Runs on the calling thread only (the heap counter is process-wide).
pub fn cycle_test(seed: u64, cycles: usize) -> RunOut {
    let mut rng = Rng::new(seed);
    let mut cfg_a = small_cfg(&mut rng, None);
    let mut cfg_b = small_cfg(&mut rng, None);
    cfg_a.max_ports = 4;
    cfg_b.max_ports = 4;
    cfg_a.receive_buffer = 64;
    cfg_b.receive_buffer = 64;
    let replay = json!({"seed": seed, "cycles": cycles, "cfg_a": cfg_json(&cfg_a), "cfg_b": cfg_json(&cfg_b)});
    let mut out = RunOut::default();
    install_h1(rng.fork(1), 0, 0);
    let res: Result<(), String> = run_virtual(seed, async {
        let Conn { net, a, mut b, sched: _s } = connect_pair(cfg_a.clone(), cfg_b.clone(), crate::simnet::NetCfg { frame_budget: usize::MAX, keep_trace: false, ..Default::default() }, &mut rng).await?;
        // the monitor keeps per-pair state for ever; do not let it distort the heap measurement
        let _mon = net.take_mon();
        let mut samples: Vec<(usize, usize, isize)> = Vec::new();
        for c in 0..cycles {
            let n_pairs = 1 + c % 3;
            let mut pairs = Vec::new();
            for _ in 0..n_pairs {
                pairs.push(open_port(&a.client, &mut b.listener).await?);
            }
            for ((ta, _ra), (_tb, rb)) in pairs.iter_mut() {
                let _ = or_quiescent(ta.send(Bytes::from(payload(c as u64, 40)))).await;
                let _ = or_quiescent(rb.recv()).await;
            }
            let mut halves: Vec<Obj> = Vec::new();
            for ((ta, ra), (tb, rb)) in pairs {
                halves.push(Obj::Tx(ta));
                halves.push(Obj::Rx(ra));
                halves.push(Obj::Tx(tb));
                halves.push(Obj::Rx(rb));
            }
            rng.shuffle(&mut halves);
            drop(halves);
            settle().await;
            if c + 1 == cycles / 5 || c + 1 == cycles {
                samples.push((c + 1, crate::mem::live_bytes(), remoc::exec::verif::live_tasks_local()));
            }
        }
        out.count("cycles", cycles as u64);
        if samples.len() == 2 {
            let (c1, h1, t1) = samples[0];
            let (c2, h2, t2) = samples[1];
            out.max("heap_after_first_sample", h1 as u64);
            out.max("heap_after_last_sample", h2 as u64);
            let growth = h2 as i64 - h1 as i64;
            out.item("cycle_heap_growth_bytes", format!("{growth} between cycle {c1} and {c2}"));
            // slack: 16 bytes per cycle would already be a leak of an object per cycle
            if growth > 8 * (c2 - c1) as i64 + 4096 {
                out.viol("C07:heap-grows-per-cycle", format!("heap grew by {growth} bytes between cycle {c1} and cycle {c2}"), replay.clone());
            }
            if t2 > t1 {
                out.viol("C07:tasks-grow-per-cycle", format!("{t1} internal tasks alive after cycle {c1}, {t2} after cycle {c2}"), replay.clone());
            }
        }
        let mut h = Fnv::new();
        h.add_u64(seed);
        out.case_hash = Some(h.get());
        Ok(())
    });
    uninstall_h1();
    if let Err(e) = res {
        out.inconclusive = Some(format!("cycle test setup failed: {e}"));
    }
    out
}
