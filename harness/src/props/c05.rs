//! C05 Channel halves embedded in values are wired one-to-one to their counterparts.

use bytes::Bytes;
use remoc::rch::{bin, broadcast, lr, mpsc, oneshot, watch};
use serde::{Deserialize, Serialize};
use serde_json::json;
use std::collections::BTreeMap;

use super::{common::*, rig::*};
use crate::{
    clock::{or_quiescent, run_virtual, settle},
    evidence::RunOut,
    rng::{Fnv, Rng},
    sched::{install_h1, uninstall_h1},
};

#[derive(Serialize, Deserialize, Debug)]
pub enum Half {
    MpscTx(mpsc::Sender<u64>),
    MpscRx(mpsc::Receiver<u64>),
    OneshotTx(oneshot::Sender<u64>),
    OneshotRx(oneshot::Receiver<u64>),
    WatchTx(watch::Sender<u64>),
    WatchRx(watch::Receiver<u64>),
    BroadcastRx(broadcast::Receiver<u64>),
    BinTx(bin::Sender),
    BinRx(bin::Receiver),
    LrTx(lr::Sender<u64>),
    LrRx(lr::Receiver<u64>),
}

/// What stays at the origin for each shipped half.
pub enum Counter {
    MpscRx(mpsc::Receiver<u64>),
    MpscTx(mpsc::Sender<u64>),
    /// the receiver was shipped with `queued` items waiting in it, closed (before shipping) or not
    MpscTxQueued(mpsc::Sender<u64>, u64, bool),
    OneshotRx(oneshot::Receiver<u64>),
    OneshotTx(oneshot::Sender<u64>),
    WatchRx(watch::Receiver<u64>),
    WatchTx(watch::Sender<u64>),
    BroadcastTx(broadcast::Sender<u64>),
    BinRx(bin::Receiver),
    BinTx(bin::Sender),
    LrRx(lr::Receiver<u64>),
    LrTx(lr::Sender<u64>),
}

#[derive(Serialize, Deserialize, Debug)]
pub enum Node {
    Leaf(u64, Half),
    List(Vec<Node>),
    Opt(Option<Box<Node>>),
    Pair(Box<Node>, Box<Node>),
    Map(BTreeMap<u8, Node>),
    Variant { tag: u32, inner: Box<Node> },
    Nothing(u32),
}

impl Node {
    fn leaves(self, out: &mut Vec<(u64, Half)>) {
        match self {
            Node::Leaf(l, h) => out.push((l, h)),
            Node::List(v) => v.into_iter().for_each(|n| n.leaves(out)),
            Node::Opt(o) => {
                if let Some(n) = o {
                    n.leaves(out)
                }
            }
            Node::Pair(a, b) => {
                a.leaves(out);
                b.leaves(out);
            }
            Node::Map(m) => m.into_values().for_each(|n| n.leaves(out)),
            Node::Variant { inner, .. } => inner.leaves(out),
            Node::Nothing(_) => {}
        }
    }
    fn shape(&self) -> String {
        match self {
            Node::Leaf(l, h) => format!("{}#{l}", format!("{h:?}").split('(').next().unwrap_or("?")),
            Node::List(v) => format!("[{}]", v.iter().map(|n| n.shape()).collect::<Vec<_>>().join(",")),
            Node::Opt(o) => format!("?{}", o.as_ref().map(|n| n.shape()).unwrap_or_default()),
            Node::Pair(a, b) => format!("({},{})", a.shape(), b.shape()),
            Node::Map(m) => format!("{{{}}}", m.iter().map(|(k, n)| format!("{k}:{}", n.shape())).collect::<Vec<_>>().join(",")),
            Node::Variant { inner, .. } => format!("V<{}>", inner.shape()),
            Node::Nothing(_) => "_".into(),
        }
    }
}

fn new_half(rng: &mut Rng, label: u64, counters: &mut BTreeMap<u64, Counter>, allow_lr: bool) -> Half {
    // lr channels are established by sending one half once; a received lr half cannot be forwarded
    match rng.below(if allow_lr { 11 } else { 9 }) {
        0 => {
            let (tx, rx) = mpsc::channel(4);
            counters.insert(label, Counter::MpscRx(rx));
            Half::MpscTx(tx)
        }
        1 => {
            let (tx, mut rx) = mpsc::channel(4);
            if rng.chance(40) {
                // handed over while items are queued; in half of these cases the receiver is closed first
                let queued = 1 + rng.below(3);
                for i in 0..queued {
                    let _ = tx.try_send(val(label, 10 + i));
                }
                let closed = rng.chance(50);
                if closed {
                    rx.close();
                }
                counters.insert(label, Counter::MpscTxQueued(tx, queued, closed));
            } else {
                counters.insert(label, Counter::MpscTx(tx));
            }
            Half::MpscRx(rx)
        }
        2 => {
            let (tx, rx) = oneshot::channel();
            counters.insert(label, Counter::OneshotRx(rx));
            Half::OneshotTx(tx)
        }
        3 => {
            let (tx, rx) = oneshot::channel();
            counters.insert(label, Counter::OneshotTx(tx));
            Half::OneshotRx(rx)
        }
        4 => {
            let (tx, rx) = watch::channel(0);
            counters.insert(label, Counter::WatchRx(rx));
            Half::WatchTx(tx)
        }
        5 => {
            let (tx, rx) = watch::channel(0);
            counters.insert(label, Counter::WatchTx(tx));
            Half::WatchRx(rx)
        }
        6 => {
            let tx: broadcast::Sender<u64> = broadcast::Sender::new();
            let rx = tx.subscribe(4);
            counters.insert(label, Counter::BroadcastTx(tx));
            Half::BroadcastRx(rx)
        }
        7 => {
            let (tx, rx) = bin::channel();
            counters.insert(label, Counter::BinRx(rx));
            Half::BinTx(tx)
        }
        8 => {
            let (tx, rx) = bin::channel();
            counters.insert(label, Counter::BinTx(tx));
            Half::BinRx(rx)
        }
        9 => {
            let (tx, rx) = lr::channel();
            counters.insert(label, Counter::LrRx(rx));
            Half::LrTx(tx)
        }
        _ => {
            let (tx, rx) = lr::channel();
            counters.insert(label, Counter::LrTx(tx));
            Half::LrRx(rx)
        }
    }
}

fn gen_node(rng: &mut Rng, depth: u32, next_label: &mut u64, budget: &mut u32, counters: &mut BTreeMap<u64, Counter>, allow_lr: bool) -> Node {
    let leafish = depth >= 3 || rng.chance(45);
    if leafish {
        if *budget == 0 || rng.chance(8) {
            return Node::Nothing(rng.below(100) as u32);
        }
        *budget -= 1;
        *next_label += 1;
        let l = *next_label;
        return Node::Leaf(l, new_half(rng, l, counters, allow_lr));
    }
    match rng.below(5) {
        0 => Node::List((0..rng.below(4)).map(|_| gen_node(rng, depth + 1, next_label, budget, counters, allow_lr)).collect()),
        1 => Node::Opt(if rng.chance(70) { Some(Box::new(gen_node(rng, depth + 1, next_label, budget, counters, allow_lr))) } else { None }),
        2 => Node::Pair(Box::new(gen_node(rng, depth + 1, next_label, budget, counters, allow_lr)), Box::new(gen_node(rng, depth + 1, next_label, budget, counters, allow_lr))),
        3 => {
            let mut m = BTreeMap::new();
            let mut key = rng.below(5) as u8;
            for _ in 0..rng.below(4) {
                m.insert(key, gen_node(rng, depth + 1, next_label, budget, counters, allow_lr));
                key += 1 + rng.below(4) as u8;
            }
            Node::Map(m)
        }
        _ => Node::Variant { tag: rng.below(9) as u32, inner: Box::new(gen_node(rng, depth + 1, next_label, budget, counters, allow_lr)) },
    }
}

/// The value a half with label `l` carries in direction "destination -> origin" (1) or "origin -> destination" (2).
fn val(l: u64, dir: u64) -> u64 {
    l * 1000 + dir
}

/// Exercises the destination half and its counterpart at the origin; returns what arrived: Ok(value) or Err(what).
async fn exercise(label: u64, half: Half, counter: Counter) -> Result<u64, String> {
    match (half, counter) {
        (Half::MpscTx(tx), Counter::MpscRx(mut rx)) => {
            tx.send(val(label, 1)).await.map_err(|e| format!("send: {e}"))?;
            rx.recv().await.map_err(|e| format!("recv: {e}"))?.ok_or_else(|| "closed".to_string())
        }
        (Half::MpscRx(mut rx), Counter::MpscTx(tx)) => {
            tx.send(val(label, 2)).await.map_err(|e| format!("send: {e}"))?;
            rx.recv().await.map_err(|e| format!("recv: {e}"))?.ok_or_else(|| "closed".to_string())
        }
        (Half::MpscRx(mut rx), Counter::MpscTxQueued(tx, queued, closed)) => {
            // what was queued when the receiver was handed over arrives first, in order
            for i in 0..queued {
                match rx.recv().await {
                    Ok(Some(v)) if v == val(label, 10 + i) => {}
                    other => return Err(format!("queued item {i} of {queued} lost in the hand-over (closed before: {closed}): {other:?}")),
                }
            }
            if closed {
                match rx.recv().await {
                    Ok(None) => Ok(val(label, 2)),
                    other => Err(format!("closed receiver yields {other:?} after its queued items")),
                }
            } else {
                tx.send(val(label, 2)).await.map_err(|e| format!("send: {e}"))?;
                rx.recv().await.map_err(|e| format!("recv: {e}"))?.ok_or_else(|| "closed".to_string())
            }
        }
        (Half::OneshotTx(tx), Counter::OneshotRx(rx)) => {
            tx.send(val(label, 1)).map_err(|e| format!("send: {e}"))?;
            rx.await.map_err(|e| format!("recv: {e}"))
        }
        (Half::OneshotRx(rx), Counter::OneshotTx(tx)) => {
            tx.send(val(label, 2)).map_err(|e| format!("send: {e}"))?;
            rx.await.map_err(|e| format!("recv: {e}"))
        }
        (Half::WatchTx(tx), Counter::WatchRx(mut rx)) => {
            tx.send(val(label, 1)).map_err(|e| format!("send: {e}"))?;
            let r = rx.wait_for(|v| *v != 0).await.map(|v| *v).map_err(|e| format!("wait_for: {e}"));
            drop(tx);
            r
        }
        (Half::WatchRx(mut rx), Counter::WatchTx(tx)) => {
            tx.send(val(label, 2)).map_err(|e| format!("send: {e}"))?;
            let r = rx.wait_for(|v| *v != 0).await.map(|v| *v).map_err(|e| format!("wait_for: {e}"));
            drop(tx);
            r
        }
        (Half::BroadcastRx(mut rx), Counter::BroadcastTx(tx)) => {
            tx.send(val(label, 2)).map_err(|e| format!("send: {}", e.without_item()))?;
            rx.recv().await.map_err(|e| format!("recv: {e}"))
        }
        (Half::BinTx(tx), Counter::BinRx(rx)) => bin_exercise(tx, rx, val(label, 1)).await,
        (Half::BinRx(rx), Counter::BinTx(tx)) => bin_exercise(tx, rx, val(label, 2)).await,
        (Half::LrTx(mut tx), Counter::LrRx(mut rx)) => {
            let (s, r) = tokio::join!(tx.send(val(label, 1)), rx.recv());
            s.map_err(|e| format!("send: {e}"))?;
            r.map_err(|e| format!("recv: {e}"))?.ok_or_else(|| "closed".to_string())
        }
        (Half::LrRx(mut rx), Counter::LrTx(mut tx)) => {
            let (s, r) = tokio::join!(tx.send(val(label, 2)), rx.recv());
            s.map_err(|e| format!("send: {e}"))?;
            r.map_err(|e| format!("recv: {e}"))?.ok_or_else(|| "closed".to_string())
        }
        (h, _) => Err(format!("half {h:?} has a counterpart of another kind (harness table broken)")),
    }
}

/// A small value with two channel halves that is sent over a (possibly forwarded) bin channel.
#[derive(Serialize, Deserialize, Debug)]
struct Inner {
    v: u64,
    tx: mpsc::Sender<u64>,
    rx: oneshot::Receiver<u64>,
}

/// Raw bytes first, then a typed value containing halves (ports sent over the binary channel, which a
/// forwarded bin channel has to relay with their ids).
async fn bin_exercise(tx: bin::Sender, rx: bin::Receiver, v: u64) -> Result<u64, String> {
    let (mut ctx, mut crx) = tokio::try_join!(async { tx.into_inner().await.map_err(|e| format!("bin tx: {e}")) }, async { rx.into_inner().await.map_err(|e| format!("bin rx: {e}")) })?;
    ctx.send(Bytes::from(v.to_le_bytes().to_vec())).await.map_err(|e| format!("send: {e}"))?;
    let d = crx.recv().await.map_err(|e| format!("recv: {e}"))?.ok_or_else(|| "closed".to_string())?;
    let raw: Vec<u8> = d.into();
    let got = u64::from_le_bytes(raw.try_into().map_err(|_| "size".to_string())?);
    // typed layer on top of the same binary channel
    let mut btx = remoc::rch::base::Sender::<Inner>::new(ctx);
    let mut brx = remoc::rch::base::Receiver::<Inner>::new(crx);
    let (mtx, mut mrx) = mpsc::channel::<u64, remoc::codec::Default>(2);
    let (otx, orx) = oneshot::channel::<u64, remoc::codec::Default>();
    let (s, r) = tokio::join!(btx.send(Inner { v, tx: mtx, rx: orx }), brx.recv());
    s.map_err(|e| format!("value over bin channel: {e}"))?;
    let inner = r.map_err(|e| format!("value over bin channel: recv: {e}"))?.ok_or_else(|| "value over bin channel: closed".to_string())?;
    if inner.v != v {
        return Ok(inner.v);
    }
    inner.tx.send(v + 7).await.map_err(|e| format!("inner mpsc send: {e}"))?;
    let a = mrx.recv().await.map_err(|e| format!("inner mpsc recv: {e}"))?.ok_or_else(|| "inner mpsc closed".to_string())?;
    otx.send(v + 9).map_err(|e| format!("inner oneshot send: {e}"))?;
    let b = inner.rx.await.map_err(|e| format!("inner oneshot recv: {e}"))?;
    if a != v + 7 || b != v + 9 {
        return Err(format!("halves inside the value sent over the bin channel are mis-wired: got {a} and {b}, expected {} and {}", v + 7, v + 9));
    }
    Ok(got)
}

fn expected(half: &Half, label: u64) -> u64 {
    match half {
        Half::MpscTx(_) | Half::OneshotTx(_) | Half::WatchTx(_) | Half::BinTx(_) | Half::LrTx(_) => val(label, 1),
        _ => val(label, 2),
    }
}

pub fn run_one(run: u64, seed: u64) -> RunOut {
    let mut rng = Rng::new(seed);
    let hops = 1 + rng.usize_below(3);
    let mut cfgs: Vec<(remoc::Cfg, remoc::Cfg)> = (0..hops).map(|_| (rch_cfg(&mut rng), rch_cfg(&mut rng))).collect();
    let tiny_credit = rng.chance(25);
    // the limit on ports per received value only guards against *unexpected* ports: a value that announces its
    // halves must get all of them, buffered or streamed, however small the configured limit is
    let few_ports = rng.chance(30);
    for (a, b) in cfgs.iter_mut() {
        if few_ports {
            // (not below 2: the value sent over a forwarded bin channel carries two halves, and the endpoints that
            // forward raw ports apply the configured limit as it is)
            a.max_received_ports = *rng.pick(&[2usize, 3, 4]);
            b.max_received_ports = *rng.pick(&[2usize, 3, 4]);
        }
        if tiny_credit {
            a.receive_buffer = *rng.pick(&[8u32, 9, 10, 11, 12, 16]);
            b.receive_buffer = *rng.pick(&[8u32, 9, 10, 11, 12, 16]);
            a.chunk_size = *rng.pick(&[4u32, 8, 16]);
            b.chunk_size = *rng.pick(&[4u32, 8, 16]);
        }
        a.max_ports = 64;
        b.max_ports = 64;
    }
    let h1 = *rng.pick(&[0u64, 0, 20, 50]);
    let mut replay = json!({"run": run, "seed": seed, "hops": hops, "tiny_credit": tiny_credit, "h1_pct": h1,
        "cfgs": cfgs.iter().map(|(a, b)| json!([cfg_json(a), cfg_json(b)])).collect::<Vec<_>>()});
    let mut out = RunOut::default();
    let panics0 = crate::mem::panic_count();
    let prefix = crate::clock::thread_prefix();
    install_h1(rng.fork(1), h1, 0);
    let res: Result<(), String> = run_virtual(seed, async {
        // channels need a runtime: the value is generated here
        let mut counters: BTreeMap<u64, Counter> = BTreeMap::new();
        let mut next_label = 0u64;
        let mut budget = rng.below(13) as u32;
        let top = 1 + rng.usize_below(4);
        let value = Node::List((0..top).map(|_| gen_node(&mut rng, 0, &mut next_label, &mut budget, &mut counters, hops == 1)).collect());
        let n_halves = counters.len();
        let shape = value.shape();
        replay["halves"] = json!(n_halves);
        replay["shape"] = json!(shape);
        let replay = replay.clone();
        // chain of connections: endpoint 0 -> 1 -> ... -> hops
        let mut conns = Vec::new();
        for (a, b) in cfgs.iter() {
            conns.push(connect_rch::<Node, Node>(a.clone(), b.clone(), draw_netcfg(&mut rng), &mut rng).await?);
        }
        let mut cur = value;
        let mut nets = Vec::new();
        let mut keep: Vec<Box<dyn std::any::Any + Send>> = Vec::new();
        for c in conns {
            let RchConn { net, a, b, sched } = c;
            let RchEnd { mut tx, rx: rxa, conn: ca } = a;
            let RchEnd { tx: txb, mut rx, conn: cb } = b;
            nets.push(net);
            let send = crate::sched::spawn(async move {
                let r = tx.send(cur).await.map_err(|e| e.to_string());
                crate::simnet::bump_progress();
                (r, tx)
            });
            let got = or_quiescent(rx.recv()).await;
            let sent = or_quiescent(send).await;
            let Some(Ok((sr, tx))) = sent else {
                let mut rp = replay.clone();
                rp["trace_tail"] = nets.last().map(|n: &std::sync::Arc<crate::simnet::Net>| n.trace_json(30)).unwrap_or_default();
                out.viol("C05:value-not-delivered", format!("hop {}: sending the value ({n_halves} halves) is still pending at quiescence of a healthy connection", nets.len()), rp);
                return Ok(());
            };
            if let Err(e) = sr {
                out.viol("C05:value-not-delivered", format!("hop {}: sending the value failed on a healthy connection: {e}", nets.len()), replay.clone());
                return Ok(());
            }
            cur = match got {
                Some(Ok(Some(v))) => v,
                other => {
                    let mut rp = replay.clone();
                    rp["trace_tail"] = nets.last().map(|n: &std::sync::Arc<crate::simnet::Net>| n.trace_json(30)).unwrap_or_default();
                    out.viol(
                        "C05:value-not-delivered",
                        format!("hop {}: the value ({n_halves} halves) was sent but receiving it gives {:?} at quiescence", nets.len(), other.map(|r| r.map(|o| o.is_some()).map_err(|e| e.to_string()))),
                        rp,
                    );
                    return Ok(());
                }
            };
            keep.push(Box::new((tx, rxa, ca, txb, rx, cb, sched)));
        }
        if cur.shape() != shape {
            out.viol("C05:shape-changed", format!("value arrived with shape {} but was sent as {shape}", cur.shape()), replay.clone());
        }
        let mut leaves = Vec::new();
        cur.leaves(&mut leaves);
        // exercise every half concurrently
        let mut tasks = Vec::new();
        for (label, half) in leaves {
            let Some(counter) = counters.remove(&label) else {
                out.viol("C05:unknown-label", format!("received a half labelled {label} that was never sent (or twice)"), replay.clone());
                continue;
            };
            let exp = expected(&half, label);
            let kind = format!("{half:?}").split('(').next().unwrap_or("?").to_string();
            tasks.push((label, kind, exp, crate::sched::spawn(exercise(label, half, counter))));
        }
        if !counters.is_empty() {
            out.viol("C05:half-lost", format!("halves {:?} were sent but did not arrive", counters.keys().collect::<Vec<_>>()), replay.clone());
        }
        settle().await;
        for (label, kind, exp, t) in tasks {
            out.item("half_kinds", format!("{kind}x{hops}"));
            if !t.is_finished() {
                let mut rp = replay.clone();
                rp["trace_tail"] = nets[0].trace_json(30);
                out.viol("C05:half-hangs", format!("half #{label} ({kind}, {hops} hops): neither data nor an error at quiescence"), rp);
                continue;
            }
            match t.await {
                Ok(Ok(v)) if v == exp => out.count("halves_verified", 1),
                Ok(Ok(v)) => {
                    out.viol("C05:cross-wired", format!("half #{label} ({kind}, {hops} hops) delivered {v}: that is the value of half #{} (expected {exp})", v / 1000), replay.clone());
                }
                Ok(Err(e)) => {
                    let mut rp = replay.clone();
                    rp["trace_tail"] = nets[0].trace_json(30);
                    out.viol("C05:half-not-connected", format!("half #{label} ({kind}, {hops} hops) failed on a healthy connection: {e}"), rp);
                }
                Err(e) => out.viol("C05:panic", format!("exercise task failed: {e}"), replay.clone()),
            }
        }
        for net in &nets {
            wire_violations_to(&mut out, net, "C05", &replay);
            let zp = net.with_mon(|m| m.stats.zero_port_frames).unwrap_or(0);
            if zp > 0 {
                out.viol("C05:zero-progress-frames", format!("{zp} PortData frames without ports"), replay.clone());
            }
        }
        if n_halves >= 2 || hops >= 2 {
            let mut h = Fnv::new();
            h.add_str(&shape);
            h.add_u64(hops as u64);
            h.add_u64(nets[0].signature());
            out.case_hash = Some(h.get());
        }
        drop(keep);
        Ok(())
    });
    uninstall_h1();
    if let Err(e) = res {
        out.inconclusive = Some(e);
    }
    if run < 3 {
        out.sample = Some(replay.clone());
    }
    for p in crate::mem::panics_since(&prefix, panics0) {
        out.viol("C05:panic", format!("panic at {}: {}", p.location, p.message), replay.clone());
    }
    out
}

/// Interlock: both halves of a single-connection channel (lr, bin) sent away must be an error, not a wiring.
pub fn run_interlock(run: u64, seed: u64) -> RunOut {
    let mut rng = Rng::new(seed);
    let mut out = RunOut::default();
    let replay = json!({"run": run, "seed": seed, "mode": "interlock"});
    install_h1(rng.fork(1), 0, 0);
    let res: Result<(), String> = run_virtual(seed, async {
        let conn = connect_rch::<Node, Node>(rch_cfg(&mut rng), rch_cfg(&mut rng), draw_netcfg(&mut rng), &mut rng).await?;
        let RchConn { net: _net, a, b, sched: _s } = conn;
        let RchEnd { mut tx, rx: _rxa, conn: _ca } = a;
        let RchEnd { tx: _txb, mut rx, conn: _cb } = b;
        let use_bin = rng.chance(50);
        let (first, second) = if use_bin {
            let (t, r) = bin::channel();
            (Node::Leaf(1, Half::BinTx(t)), Node::Leaf(2, Half::BinRx(r)))
        } else {
            let (t, r) = lr::channel::<u64, remoc::codec::Default>();
            (Node::Leaf(1, Half::LrTx(t)), Node::Leaf(2, Half::LrRx(r)))
        };
        let recv_task = crate::sched::spawn(async move {
            let mut got = Vec::new();
            while got.len() < 2 {
                match rx.recv().await {
                    Ok(Some(v)) => got.push(v),
                    _ => break,
                }
            }
            (got, rx)
        });
        let r1 = or_quiescent(tx.send(first)).await;
        let r2 = or_quiescent(tx.send(second)).await;
        out.count("interlock_runs", 1);
        match (&r1, &r2) {
            (Some(Ok(())), Some(Err(_))) => out.count("interlock_second_half_refused", 1),
            (Some(Ok(())), Some(Ok(()))) => out.count("interlock_both_halves_accepted", 1),
            (a, b) => out.item("interlock_other", format!("{:?}/{:?}", a.as_ref().map(|r| r.is_ok()), b.as_ref().map(|r| r.is_ok()))),
        }
        // whatever arrived at the other endpoint: every end must see data from its own counterpart or an error,
        // never a hang (the statement does not require the second send to be refused)
        settle().await;
        if let Some(Ok((got, _rx))) = or_quiescent(recv_task).await {
            let mut halves = Vec::new();
            for v in got {
                v.leaves(&mut halves);
            }
            let mut tasks = Vec::new();
            for (label, h) in halves {
                tasks.push((label, crate::sched::spawn(async move {
                    match h {
                        Half::LrTx(mut t) => t.send(val(label, 1)).await.map(|_| None).map_err(|e| e.to_string()),
                        Half::LrRx(mut r) => r.recv().await.map_err(|e| e.to_string()),
                        Half::BinTx(t) => match t.into_inner().await {
                            Ok(mut c) => c.send(Bytes::from_static(b"12345678")).await.map(|_| None).map_err(|e| e.to_string()),
                            Err(e) => Err(e.to_string()),
                        },
                        Half::BinRx(r) => match r.into_inner().await {
                            Ok(mut c) => c.recv().await.map(|o| o.map(|_| 1)).map_err(|e| e.to_string()),
                            Err(e) => Err(e.to_string()),
                        },
                        _ => Ok(None),
                    }
                })));
            }
            settle().await;
            for (label, t) in tasks {
                if !t.is_finished() {
                    // a receiver end waiting for data of a sender end that is alive is not a hang of the wiring
                    out.count("interlock_end_pending", 1);
                    let _ = label;
                } else if let Ok(Ok(Some(v))) = t.await {
                    if v != 1 && v / 1000 != 1 {
                        out.viol("C05:both-halves-sent-cross-wired", format!("an end of the doubly sent channel received {v}"), replay.clone());
                    }
                }
            }
        }
        drop(tx);
        Ok(())
    });
    uninstall_h1();
    if let Err(e) = res {
        out.inconclusive = Some(e);
    }
    let mut h = Fnv::new();
    h.add_u64(seed);
    out.case_hash = Some(h.get());
    out
}
