//! C04 Typed channels: per-sender prefix delivery; item failures never create gaps.

use remoc::rch::{lr, mpsc, oneshot};
use serde::{Deserialize, Serialize};
use serde_json::json;
use std::sync::{Arc, Mutex};

use super::{common::*, rig::*};
use crate::{
    clock::{run_virtual, settle},
    evidence::RunOut,
    rng::{Fnv, Rng},
    sched::{CancelAt, install_h1, uninstall_h1},
};

#[derive(Serialize, Deserialize, Debug)]
pub enum Ship {
    Item(Item),
    MpscRx(mpsc::Receiver<Item>),
    MpscTx(mpsc::Sender<Item>),
    LrRx(lr::Receiver<Item>),
    OneshotRx(oneshot::Receiver<Item>),
    Nothing,
}

#[derive(Clone, Copy, Debug, PartialEq, Eq)]
pub enum Kind {
    Base,
    MpscRxRemote,
    MpscTxRemote,
    Lr,
    Oneshot,
}

#[derive(Clone, Debug)]
pub enum Fail {
    None,
    Poison,
    Cancel(u32),
}

#[derive(Clone, Debug)]
pub struct Plan {
    pub id: u64,
    pub len: usize,
    pub fail: Fail,
}

#[derive(Clone, Debug, PartialEq, Eq)]
pub enum SendOutcome {
    Ok,
    ItemError(String),
    FinalError(String),
    Cancelled,
    /// mpsc: accepted into the local queue but the Sending handle was dropped or reported Dropped
    Unknown,
}

#[derive(Clone, Debug)]
pub enum RecvEv {
    Item(Item),
    NonFinalErr(String),
    FinalErr(String),
    End,
}

fn lens_around(rng: &mut Rng, thresholds: &[usize]) -> usize {
    let t = *rng.pick(thresholds);
    match rng.below(6) {
        0 => rng.usize_below(40),
        1 => t.saturating_sub(rng.usize_below(40)),
        2 => t + rng.usize_below(12),
        3 => t * 2 + rng.usize_below(50),
        4 => t / 2,
        _ => t.saturating_sub(12) + rng.usize_below(24),
    }
    .min(20_000)
}

fn maybe_huge(rng: &mut Rng, len: usize) -> usize {
    // occasionally an item of many hundred chunks (fills the queue to the (de)serialisation thread)
    if rng.chance(4) { 6_000 + rng.usize_below(14_000) } else { len }
}

pub fn run_one(run: u64, seed: u64) -> RunOut {
    let mut rng = Rng::new(seed);
    let cfg_a = rch_cfg(&mut rng);
    let cfg_b = rch_cfg(&mut rng);
    let netcfg = draw_netcfg(&mut rng);
    let h1 = *rng.pick(&[0u64, 0, 10, 40]);
    let kind = *rng.pick(&[Kind::Base, Kind::Base, Kind::MpscRxRemote, Kind::MpscTxRemote, Kind::Lr, Kind::Oneshot]);
    let sender_limit: usize = *rng.pick(&[usize::MAX, usize::MAX, 300, 1500]);
    let recv_limit: usize = if matches!(kind, Kind::Base | Kind::Lr) { *rng.pick(&[usize::MAX, usize::MAX, 300, 1500]) } else { usize::MAX };
    // thresholds of the sending and receiving side
    let (cs, cr) = if kind == Kind::MpscTxRemote { (&cfg_b, &cfg_a) } else { (&cfg_a, &cfg_b) };
    let mut thresholds = vec![cr.max_data_size, cs.max_data_size, cr.chunk_size as usize, cr.receive_buffer as usize];
    if sender_limit != usize::MAX {
        thresholds.push(sender_limit);
    }
    if recv_limit != usize::MAX {
        thresholds.push(recv_limit);
    }
    let n_senders = if matches!(kind, Kind::MpscRxRemote | Kind::MpscTxRemote) { 1 + rng.usize_below(3) } else { 1 };
    let n_items = if kind == Kind::Oneshot { 1 } else { 1 + rng.usize_below(7) };
    let fail_pct = *rng.pick(&[0u64, 15, 35]);
    let mut plans: Vec<Vec<Plan>> = Vec::new();
    for s in 0..n_senders {
        let mut v = Vec::new();
        for i in 0..n_items {
            let fail = if rng.chance(fail_pct) {
                if rng.chance(50) { Fail::Poison } else { Fail::Cancel(rng.below(8) as u32) }
            } else {
                Fail::None
            };
            let len = lens_around(&mut rng, &thresholds);
            let len = maybe_huge(&mut rng, len);
            v.push(Plan { id: ((s as u64 + 1) << 32) | (i as u64 + 1), len, fail });
        }
        plans.push(v);
    }
    let replay = json!({"run": run, "seed": seed, "kind": format!("{kind:?}"), "cfg_a": cfg_json(&cfg_a), "cfg_b": cfg_json(&cfg_b),
        "net": netcfg_class(&netcfg), "h1_pct": h1, "sender_limit": if sender_limit == usize::MAX { json!(null) } else { json!(sender_limit) },
        "recv_limit": if recv_limit == usize::MAX { json!(null) } else { json!(recv_limit) },
        "plans": plans.iter().map(|p| p.iter().map(|x| format!("#{:x} len {} {:?}", x.id, x.len, x.fail)).collect::<Vec<_>>()).collect::<Vec<_>>()});

    if std::env::var("HARNESS_DEBUG").is_ok() {
        eprintln!("{replay}");
    }
    let mut out = RunOut::default();
    let panics0 = crate::mem::panic_count();
    let prefix = crate::clock::thread_prefix();
    install_h1(rng.fork(1), h1, 0);
    let sends: Arc<Mutex<Vec<(u64, usize, SendOutcome)>>> = Arc::new(Mutex::new(Vec::new()));
    let recvs: Arc<Mutex<Vec<RecvEv>>> = Arc::new(Mutex::new(Vec::new()));
    let res: Result<(), String> = run_virtual(seed, async {
        let conn = connect_rch::<Ship, Ship>(cfg_a.clone(), cfg_b.clone(), netcfg.clone(), &mut rng).await?;
        let RchConn { net, a, b, sched: _s } = conn;
        let RchEnd { tx: mut tx_ab, rx: rx_ba, conn: _ca } = a;
        let RchEnd { tx: mut tx_ba, rx: mut rx_ab, conn: _cb } = b;
        let _keep = (rx_ba,);

        // generic receive loop recorder
        macro_rules! recv_loop {
            ($rx:expr, $is_final:expr) => {{
                let recvs = recvs.clone();
                crate::sched::spawn(async move {
                    let mut rx = $rx;
                    loop {
                        let r = rx.recv().await;
                        crate::simnet::bump_progress();
                        match r {
                            Ok(Some(item)) => recvs.lock().unwrap().push(RecvEv::Item(item)),
                            Ok(None) => {
                                recvs.lock().unwrap().push(RecvEv::End);
                                break;
                            }
                            Err(e) => {
                                let f: bool = $is_final(&e);
                                if f {
                                    recvs.lock().unwrap().push(RecvEv::FinalErr(e.to_string()));
                                    break;
                                } else {
                                    recvs.lock().unwrap().push(RecvEv::NonFinalErr(e.to_string()));
                                }
                            }
                        }
                    }
                })
            }};
        }

        let mut tasks = Vec::new();
        match kind {
            Kind::Base => {
                tx_ab.set_max_item_size(sender_limit);
                rx_ab.set_max_item_size(recv_limit);
                let recvs2 = recvs.clone();
                let mut crng = rng.fork(31);
                let cancel_recv = crng.chance(50);
                tasks.push(crate::sched::spawn(async move {
                    loop {
                        // receiving is resumable: a recv future that is dropped between polls must lose nothing
                        let r = if cancel_recv && crng.chance(60) {
                            match CancelAt::new(rx_ab.recv(), 1 + crng.below(12) as u32).await {
                                Some(r) => r,
                                None => {
                                    crate::simnet::bump_progress();
                                    continue;
                                }
                            }
                        } else {
                            rx_ab.recv().await
                        };
                        crate::simnet::bump_progress();
                        match r {
                            Ok(Some(Ship::Item(item))) => recvs2.lock().unwrap().push(RecvEv::Item(item)),
                            Ok(Some(_)) => {}
                            Ok(None) => {
                                recvs2.lock().unwrap().push(RecvEv::End);
                                break;
                            }
                            Err(e) => {
                                if e.is_final() {
                                    recvs2.lock().unwrap().push(RecvEv::FinalErr(e.to_string()));
                                    break;
                                } else {
                                    recvs2.lock().unwrap().push(RecvEv::NonFinalErr(e.to_string()));
                                }
                            }
                        }
                    }
                }));
                let plan = plans[0].clone();
                let sends2 = sends.clone();
                tasks.push(crate::sched::spawn(async move {
                    for p in plan {
                        let item = if matches!(p.fail, Fail::Poison) { Item::poisoned(p.id, p.len) } else { Item::new(p.id, p.len) };
                        let o = match p.fail {
                            Fail::Cancel(n) => match CancelAt::new(tx_ab.send(Ship::Item(item)), n).await {
                                None => SendOutcome::Cancelled,
                                Some(Ok(())) => SendOutcome::Ok,
                                Some(Err(e)) => if e.is_item_specific() { SendOutcome::ItemError(e.to_string()) } else { SendOutcome::FinalError(e.to_string()) },
                            },
                            _ => match tx_ab.send(Ship::Item(item)).await {
                                Ok(()) => SendOutcome::Ok,
                                Err(e) => if e.is_item_specific() { SendOutcome::ItemError(e.to_string()) } else { SendOutcome::FinalError(e.to_string()) },
                            },
                        };
                        crate::simnet::bump_progress();
                        sends2.lock().unwrap().push((p.id, p.len, o));
                    }
                    drop(tx_ab);
                }));
            }
            Kind::Lr => {
                let (mut ltx, mut lrx) = lr::channel::<Item, remoc::codec::Default>();
                ltx.set_max_item_size(sender_limit);
                lrx.set_max_item_size(recv_limit);
                let (sr, rr) = tokio::join!(tx_ab.send(Ship::LrRx(lrx)), rx_ab.recv());
                sr.map_err(|e| format!("shipping lr receiver: {e}"))?;
                let Ok(Some(Ship::LrRx(lrx))) = rr else { return Err("lr receiver did not arrive".into()) };
                tasks.push(recv_loop!(lrx, |e: &lr::RecvError| e.is_final()));
                let plan = plans[0].clone();
                let sends2 = sends.clone();
                tasks.push(crate::sched::spawn(async move {
                    for p in plan {
                        let item = if matches!(p.fail, Fail::Poison) { Item::poisoned(p.id, p.len) } else { Item::new(p.id, p.len) };
                        let o = match p.fail {
                            Fail::Cancel(n) => match CancelAt::new(ltx.send(item), n).await {
                                None => SendOutcome::Cancelled,
                                Some(Ok(())) => SendOutcome::Ok,
                                Some(Err(e)) => if e.is_item_specific() { SendOutcome::ItemError(e.to_string()) } else { SendOutcome::FinalError(e.to_string()) },
                            },
                            _ => match ltx.send(item).await {
                                Ok(()) => SendOutcome::Ok,
                                Err(e) => if e.is_item_specific() { SendOutcome::ItemError(e.to_string()) } else { SendOutcome::FinalError(e.to_string()) },
                            },
                        };
                        crate::simnet::bump_progress();
                        sends2.lock().unwrap().push((p.id, p.len, o));
                    }
                    drop(ltx);
                }));
                tasks.push(crate::sched::spawn(async move {
                    let _k = (tx_ab, rx_ab);
                    futures::future::pending::<()>().await;
                }));
            }
            Kind::Oneshot => {
                let (mut otx, orx) = oneshot::channel::<Item, remoc::codec::Default>();
                otx.set_max_item_size(sender_limit);
                let (sr, rr) = tokio::join!(tx_ab.send(Ship::OneshotRx(orx)), rx_ab.recv());
                sr.map_err(|e| format!("shipping oneshot receiver: {e}"))?;
                let Ok(Some(Ship::OneshotRx(orx))) = rr else { return Err("oneshot receiver did not arrive".into()) };
                let recvs2 = recvs.clone();
                tasks.push(crate::sched::spawn(async move {
                    let r = orx.await;
                    crate::simnet::bump_progress();
                    match r {
                        Ok(item) => recvs2.lock().unwrap().push(RecvEv::Item(item)),
                        Err(e) => recvs2.lock().unwrap().push(RecvEv::FinalErr(e.to_string())),
                    }
                    recvs2.lock().unwrap().push(RecvEv::End);
                }));
                let p = plans[0][0].clone();
                let sends2 = sends.clone();
                tasks.push(crate::sched::spawn(async move {
                    let item = if matches!(p.fail, Fail::Poison) { Item::poisoned(p.id, p.len) } else { Item::new(p.id, p.len) };
                    let o = match otx.send(item) {
                        Ok(sending) => match sending.await {
                            Ok(()) => SendOutcome::Ok,
                            Err(remoc::rch::SendingError::Send(e)) => if e.is_item_specific() { SendOutcome::ItemError(e.to_string()) } else { SendOutcome::FinalError(e.to_string()) },
                            Err(remoc::rch::SendingError::Dropped) => SendOutcome::Unknown,
                        },
                        Err(e) => SendOutcome::FinalError(e.to_string()),
                    };
                    crate::simnet::bump_progress();
                    sends2.lock().unwrap().push((p.id, p.len, o));
                }));
                tasks.push(crate::sched::spawn(async move {
                    let _k = (tx_ab, rx_ab);
                    futures::future::pending::<()>().await;
                }));
            }
            Kind::MpscRxRemote | Kind::MpscTxRemote => {
                let (mut mtx, mrx) = mpsc::channel::<Item, remoc::codec::Default>(*rng.pick(&[1usize, 2, 8]));
                mtx.set_max_item_size(sender_limit);
                // the half that travels and where each half ends up
                let (mtx, mrx) = if kind == Kind::MpscRxRemote {
                    let (sr, rr) = tokio::join!(tx_ab.send(Ship::MpscRx(mrx)), rx_ab.recv());
                    sr.map_err(|e| format!("shipping mpsc receiver: {e}"))?;
                    let Ok(Some(Ship::MpscRx(mrx))) = rr else { return Err("mpsc receiver did not arrive".into()) };
                    (mtx, mrx)
                } else {
                    let (sr, rr) = tokio::join!(tx_ab.send(Ship::MpscTx(mtx)), rx_ab.recv());
                    sr.map_err(|e| format!("shipping mpsc sender: {e}"))?;
                    let Ok(Some(Ship::MpscTx(mtx))) = rr else { return Err("mpsc sender did not arrive".into()) };
                    (mtx, mrx)
                };
                tasks.push(recv_loop!(mrx, |e: &mpsc::RecvError| e.is_final()));
                for plan in plans.clone() {
                    let mtx = mtx.clone();
                    let sends2 = sends.clone();
                    let mut srng = rng.fork(plan[0].id);
                    tasks.push(crate::sched::spawn(async move {
                        let mut handles = Vec::new();
                        for p in plan {
                            let item = if matches!(p.fail, Fail::Poison) { Item::poisoned(p.id, p.len) } else { Item::new(p.id, p.len) };
                            let r = match p.fail {
                                Fail::Cancel(n) => match CancelAt::new(mtx.send(item), n).await {
                                    None => {
                                        sends2.lock().unwrap().push((p.id, p.len, SendOutcome::Cancelled));
                                        continue;
                                    }
                                    Some(r) => r,
                                },
                                _ => mtx.send(item).await,
                            };
                            crate::simnet::bump_progress();
                            match r {
                                Ok(sending) => handles.push((p, sending)),
                                Err(e) => {
                                    let o = if e.is_item_specific() { SendOutcome::ItemError(e.to_string()) } else { SendOutcome::FinalError(e.to_string()) };
                                    sends2.lock().unwrap().push((p.id, p.len, o));
                                }
                            }
                            if srng.chance(30) {
                                tokio::task::yield_now().await;
                            }
                        }
                        drop(mtx);
                        for (p, h) in handles {
                            let o = match h.await {
                                Ok(()) => SendOutcome::Ok,
                                Err(remoc::rch::SendingError::Send(e)) => if e.is_item_specific() { SendOutcome::ItemError(e.to_string()) } else { SendOutcome::FinalError(e.to_string()) },
                                Err(remoc::rch::SendingError::Dropped) => SendOutcome::Unknown,
                            };
                            crate::simnet::bump_progress();
                            sends2.lock().unwrap().push((p.id, p.len, o));
                        }
                    }));
                }
                drop(mtx);
                tasks.push(crate::sched::spawn(async move {
                    let _k = (tx_ab, rx_ab);
                    futures::future::pending::<()>().await;
                }));
            }
        }
        // Back-pressure on the receiving endpoint's own event queue (half of the base-channel runs): B floods small
        // items towards A behind a starved B>A direction, so that B's flow-credit returns have to wait for queue
        // space while B's receive calls are being dropped and retried.
        let pressure = kind == Kind::Base && rng.chance(50);
        let mut flood = None;
        if pressure {
            net.set_starved(crate::simnet::Dir::BA, true);
            let nf = 2 + rng.usize_below(10);
            flood = Some(crate::sched::spawn(async move {
                for i in 0..nf {
                    if tx_ba.send(Ship::Item(Item::new(0x7000_0000 + i as u64, 1 + i % 5))).await.is_err() {
                        break;
                    }
                }
                tx_ba
            }));
            settle().await;
            net.set_starved(crate::simnet::Dir::BA, false);
            out.count("runs_with_receiver_event_queue_pressure", 1);
        }
        settle().await;
        drop(flood);

        // ---- oracle ----
        let sends_v = sends.lock().unwrap().clone();
        let recvs_v = recvs.lock().unwrap().clone();
        let ended = recvs_v.iter().any(|e| matches!(e, RecvEv::End));
        let final_err = recvs_v.iter().find_map(|e| if let RecvEv::FinalErr(s) = e { Some(s.clone()) } else { None });
        let all_sent = sends_v.len() == plans.iter().map(|p| p.len()).sum::<usize>();
        let any_failure = sends_v.iter().any(|s| !matches!(s.2, SendOutcome::Ok));
        let is_mpsc = matches!(kind, Kind::MpscRxRemote | Kind::MpscTxRemote | Kind::Oneshot);
        let mut bad: Vec<(String, String)> = Vec::new();

        // receiver side: every received item is intact
        let received: Vec<&Item> = recvs_v.iter().filter_map(|e| if let RecvEv::Item(i) = e { Some(i) } else { None }).collect();
        for it in &received {
            if !it.valid() {
                bad.push(("C04:item-corrupted".into(), format!("received item {} does not carry the payload that belongs to its id (truncated, merged or corrupted)", it.short())));
            }
        }
        // per sender projection: prefix of the Ok sends, in order, no duplicates
        for s in 0..n_senders {
            let sid = s as u64 + 1;
            let exp: Vec<&(u64, usize, SendOutcome)> = {
                let mut v: Vec<&(u64, usize, SendOutcome)> = sends_v.iter().filter(|x| x.0 >> 32 == sid).collect();
                v.sort_by_key(|x| x.0);
                v
            };
            let got: Vec<&&Item> = received.iter().filter(|i| i.id >> 32 == sid).collect();
            let mut gi = 0;
            for e in &exp {
                let next = got.get(gi);
                match (&e.2, next) {
                    (SendOutcome::Ok, Some(g)) if g.id == e.0 => gi += 1,
                    (SendOutcome::Ok, _) => {
                        // may legitimately be missing: receiver-side limit, or lost suffix
                        let over_recv_limit = e.1 + 48 > recv_limit;
                        if over_recv_limit {
                            continue;
                        }
                        if got[gi..].iter().any(|g| g.id > e.0) {
                            bad.push(("C04:gap".into(), format!("item #{:x} (len {}) was sent successfully but is missing although a later item of the same sender was received", e.0, e.1)));
                        } else if ended && final_err.is_none() && all_sent && !(is_mpsc && any_failure) {
                            bad.push(("C04:missing-at-clean-end".into(), format!("item #{:x} (len {}) was sent successfully but never received although the channel ended cleanly", e.0, e.1)));
                        }
                    }
                    (SendOutcome::Unknown, Some(g)) if g.id == e.0 => gi += 1,
                    (SendOutcome::Unknown, _) => {}
                    (SendOutcome::Cancelled, Some(g)) if g.id == e.0 => {
                        // a cancelled send whose item nevertheless arrived: only legitimate for mpsc
                        // (cancelling the queueing future after the value was queued)
                        if !is_mpsc {
                            bad.push(("C04:cancelled-item-delivered".into(), format!("item #{:x} whose send was cancelled was delivered", e.0)));
                        }
                        gi += 1;
                    }
                    (SendOutcome::ItemError(err), Some(g)) if g.id == e.0 => {
                        bad.push(("C04:failed-item-delivered".into(), format!("item #{:x} whose send failed ({err}) was delivered", e.0)));
                        gi += 1;
                    }
                    _ => {}
                }
            }
            if gi < got.len() {
                let g = got[gi];
                let dup = got[..gi].iter().any(|x| x.id == g.id);
                bad.push((
                    if dup { "C04:duplicate".into() } else { "C04:out-of-order-or-unknown".into() },
                    format!("received item {} of sender {sid} does not continue the sequence of that sender's successful sends (position {gi})", g.short()),
                ));
            }
            // receiver-side limit: items clearly above the limit must not be received
            for g in &got {
                if g.data.len() > recv_limit {
                    bad.push(("C04:receiver-limit-ignored".into(), format!("item {} exceeds the receiver's max_item_size {recv_limit} but was delivered", g.short())));
                }
            }
        }
        // item-specific failures must not end base / lr channels
        if matches!(kind, Kind::Base | Kind::Lr) {
            if let Some(fe) = &final_err {
                bad.push(("C04:final-error-from-item-failure".into(), format!("receiver got a final error on a healthy connection: {fe}")));
            }
            for s in &sends_v {
                if let SendOutcome::FinalError(e) = &s.2 {
                    bad.push(("C04:final-send-error".into(), format!("send of #{:x} failed with a final error on a healthy connection: {e}", s.0)));
                }
            }
            if all_sent && !ended && final_err.is_none() {
                bad.push(("C04:no-end-of-stream".into(), "sender finished and dropped, receiver has not reached end-of-stream at quiescence".to_string()));
            }
        }
        if !all_sent {
            bad.push(("C04:send-pending-at-quiescence".into(), format!("{} of {} sends completed; a send is still pending at quiescence of a healthy connection", sends_v.len(), plans.iter().map(|p| p.len()).sum::<usize>())));
        }
        for (sig, d) in bad.iter().take(3) {
            let mut rp = replay.clone();
            rp["sends"] = json!(sends_v.iter().map(|s| format!("#{:x} len {} => {:?}", s.0, s.1, s.2)).collect::<Vec<_>>());
            rp["received"] = json!(recvs_v.iter().map(|e| match e { RecvEv::Item(i) => i.short(), other => format!("{other:?}") }).collect::<Vec<_>>());
            rp["trace_tail"] = net.trace_json(30);
            out.viol(sig.clone(), d.clone(), rp);
        }
        wire_violations_to(&mut out, &net, "C04", &replay);
        out.count("items_sent_ok", sends_v.iter().filter(|s| s.2 == SendOutcome::Ok).count() as u64);
        out.count("items_failed", sends_v.iter().filter(|s| matches!(s.2, SendOutcome::ItemError(_))).count() as u64);
        out.count("items_cancelled", sends_v.iter().filter(|s| s.2 == SendOutcome::Cancelled).count() as u64);
        out.count("items_received", received.len() as u64);
        out.count("nonfinal_recv_errors", recvs_v.iter().filter(|e| matches!(e, RecvEv::NonFinalErr(_))).count() as u64);
        let streamed = sends_v.iter().filter(|s| s.1 + 16 > cs.max_data_size.min(cr.max_data_size)).count();
        out.count("items_beyond_max_data_size", streamed as u64);
        out.item("kinds", format!("{kind:?}"));
        for s in &sends_v {
            if let SendOutcome::ItemError(e) = &s.2 {
                out.item("item_error_kinds", e.chars().take(40).collect::<String>());
            }
        }
        let failure_inside = sends_v.iter().enumerate().any(|(i, s)| !matches!(s.2, SendOutcome::Ok) && i + 1 < sends_v.len());
        if streamed > 0 || failure_inside {
            let mut h = Fnv::new();
            h.add_str(&format!("{kind:?}"));
            h.add_str(&cfg_class(&cfg_a));
            h.add_str(&cfg_class(&cfg_b));
            for s in &sends_v {
                h.add_u64(s.1 as u64);
                h.add_str(&format!("{:?}", std::mem::discriminant(&s.2)));
            }
            h.add_u64(net.signature());
            out.case_hash = Some(h.get());
        }
        drop(tasks);
        Ok(())
    });
    uninstall_h1();
    if let Err(e) = res {
        out.inconclusive = Some(format!("setup: {e}"));
    }
    if run < 3 {
        let mut s = replay.clone();
        s["sends"] = json!(sends.lock().unwrap().iter().map(|s| format!("#{:x} len {} => {:?}", s.0, s.1, s.2)).collect::<Vec<_>>());
        out.sample = Some(s);
    }
    for p in crate::mem::panics_since(&prefix, panics0) {
        let mut rp = replay.clone();
        rp["panic"] = json!({"thread": p.thread, "message": p.message, "location": p.location});
        out.viol("C04:panic", format!("panic at {}: {}", p.location, p.message), rp);
    }
    out
}
