//! C10 Every port-open request resolves exactly once and pairs the right ports.

use bytes::Bytes;
use remoc::chmux::{self, ConnectError, ListenerError, PortReq, Received};
use serde_json::json;
use std::{
    collections::BTreeMap,
    sync::{Arc, Mutex},
};

use super::common::*;
use crate::{
    clock::{or_quiescent, run_virtual, settle},
    evidence::RunOut,
    rng::{Fnv, Rng},
    sched::{CancelAt, install_h1, uninstall_h1},
};

#[derive(Clone, Copy, Debug, PartialEq, Eq)]
enum Act {
    Accept,
    AcceptLater,
    RejectFalse,
    RejectTrue,
    DropReq,
}

#[derive(Clone, Debug, PartialEq, Eq)]
enum Outcome {
    /// connected; the tag the server reported over the pair (None = pair closed before a tag arrived)
    Ok(Option<u32>),
    Err(String),
    Cancelled,
    Pending,
}

#[derive(Default)]
struct Shared {
    /// tag -> what the listener side did with the request
    server_actions: BTreeMap<u32, String>,
    /// tag -> tag the server read from the client over the accepted pair
    server_read: BTreeMap<u32, Option<u32>>,
    seen_twice: Vec<u32>,
    cancelled_accepts: u32,
    accept_errors: Vec<String>,
    listener_dropped: bool,
    held: Vec<chmux::Request>,
}

async fn serve_pair(tag: u32, pair: (chmux::Sender, chmux::Receiver), sh: Arc<Mutex<Shared>>) {
    let (mut tx, mut rx) = pair;
    let _ = tx.send(Bytes::from(tag.to_le_bytes().to_vec())).await;
    let got = match rx.recv().await {
        Ok(Some(d)) => {
            let v = Vec::from(d);
            (v.len() == 4).then(|| u32::from_le_bytes([v[0], v[1], v[2], v[3]]))
        }
        _ => None,
    };
    sh.lock().unwrap().server_read.insert(tag, got);
    crate::simnet::bump_progress();
}

async fn handle_request(req: chmux::Request, act: Act, sh: Arc<Mutex<Shared>>) {
    let tag = req.id();
    {
        let mut g = sh.lock().unwrap();
        if g.server_actions.contains_key(&tag) {
            g.seen_twice.push(tag);
        }
        g.server_actions.insert(tag, format!("{act:?}"));
    }
    match act {
        Act::Accept => {
            // accepting may wait for a free port: never block the listener loop on it
            crate::sched::spawn(accept_req(req, sh));
        }
        Act::AcceptLater => sh.lock().unwrap().held.push(req),
        Act::RejectFalse => req.reject(false).await,
        Act::RejectTrue => req.reject(true).await,
        Act::DropReq => drop(req),
    }
}

async fn accept_req(req: chmux::Request, sh: Arc<Mutex<Shared>>) {
    let tag = req.id();
    sh.lock().unwrap().server_actions.insert(tag, "Accepting".into());
    match req.accept().await {
        Ok(pair) => {
            sh.lock().unwrap().server_actions.insert(tag, "Accept".into());
            crate::sched::spawn(serve_pair(tag, pair, sh));
        }
        Err(ListenerError::LocalPortsExhausted) => {
            sh.lock().unwrap().server_actions.insert(tag, "AcceptNoPorts".into());
        }
        Err(e) => sh.lock().unwrap().accept_errors.push(format!("accept of {tag}: {e}")),
    }
}

pub fn run_one(run: u64, seed: u64) -> RunOut {
    let mut rng = Rng::new(seed);
    let mut cfg_a = small_cfg(&mut rng, None);
    let mut cfg_b = small_cfg(&mut rng, None);
    cfg_a.max_ports = *rng.pick(&[2u32, 3, 4, 8]);
    cfg_b.max_ports = *rng.pick(&[2u32, 3, 4, 64]);
    cfg_a.connect_queue = *rng.pick(&[1u16, 2, 4]);
    cfg_b.connect_queue = *rng.pick(&[1u16, 2, 4]);
    cfg_a.receive_buffer = cfg_a.receive_buffer.max(16);
    cfg_b.receive_buffer = cfg_b.receive_buffer.max(16);
    cfg_a.ports_exhausted = match rng.below(3) {
        0 => chmux::PortsExhausted::Fail,
        1 => chmux::PortsExhausted::Wait(None),
        _ => chmux::PortsExhausted::Wait(Some(std::time::Duration::from_secs(5))),
    };
    let netcfg = draw_netcfg(&mut rng);
    let h1 = *rng.pick(&[0u64, 10, 40]);
    let n_req = 2 + rng.usize_below(7);
    // request plans: (tag, via_port, wait, cancel_polls)
    let plans: Vec<(u32, bool, bool, Option<u32>)> = (0..n_req)
        .map(|i| (1000 + i as u32, rng.chance(30), rng.chance(60), if rng.chance(15) { Some(rng.below(5) as u32) } else { None }))
        .collect();
    let acts: Vec<Act> = (0..n_req * 2)
        .map(|_| *rng.pick(&[Act::Accept, Act::Accept, Act::Accept, Act::AcceptLater, Act::RejectFalse, Act::RejectTrue, Act::DropReq]))
        .collect();
    let use_plain_accept = rng.chance(25);
    let cancel_accept = rng.chance(40);
    let drop_listener_after = if rng.chance(15) { Some(rng.usize_below(n_req)) } else { None };
    let sent_probe = rng.chance(30);
    let replay = json!({"run": run, "seed": seed, "cfg_a": cfg_json(&cfg_a), "cfg_b": cfg_json(&cfg_b), "net": netcfg_class(&netcfg),
        "h1_pct": h1, "plans": plans.iter().map(|p| format!("{p:?}")).collect::<Vec<_>>(), "acts": acts.iter().map(|a| format!("{a:?}")).collect::<Vec<_>>(),
        "plain_accept": use_plain_accept, "cancel_accept": cancel_accept, "drop_listener_after": drop_listener_after, "sent_probe": sent_probe});
    let mut out = RunOut::default();
    let panics0 = crate::mem::panic_count();
    let prefix = crate::clock::thread_prefix();
    install_h1(rng.fork(1), h1, 0);
    let res: Result<(), String> = run_virtual(seed, async {
        let Conn { net, a, mut b, sched: _s } = connect_pair(cfg_a.clone(), cfg_b.clone(), netcfg.clone(), &mut rng).await?;
        // base pair for ports-over-port and the ordering probe
        let ((tx0_a, rx0_a), (tx0_b, mut rx0_b)) = open_port(&a.client, &mut b.listener).await?;
        let sh = Arc::new(Mutex::new(Shared::default()));
        let outcomes: Arc<Mutex<BTreeMap<u32, Outcome>>> = Arc::new(Mutex::new(BTreeMap::new()));
        let untruthful: Arc<Mutex<Vec<String>>> = Arc::new(Mutex::new(Vec::new()));
        let harness_pending = Arc::new(Mutex::new(0u32));
        let tx0 = Arc::new(tokio::sync::Mutex::new(tx0_a));

        // ---- `sent` ordering probe (before anything else uses the listener) ----
        if sent_probe {
            let alloc = a.client.port_allocator();
            if let Some(p) = alloc.try_allocate() {
                let req = PortReq::new(p).with_id(7);
                if let Some(Ok(mut c)) = or_quiescent(a.client.connect_ext(Some(req), true)).await {
                    if or_quiescent(c.sent()).await.is_some() {
                        let mut t = tx0.lock().await;
                        let _ = or_quiescent(t.send(Bytes::from_static(b"sent"))).await;
                        drop(t);
                        // B: as soon as the marker is received, the request must be visible to the listener
                        if let Some(Ok(Some(_))) = or_quiescent(rx0_b.recv()).await {
                            use futures::FutureExt;
                            let r = tokio::task::unconstrained(b.listener.inspect()).now_or_never();
                            out.count("sent_probes", 1);
                            match r {
                                Some(Ok(Some(req))) => {
                                    if req.id() != 7 {
                                        out.viol("C10:sent-probe-wrong-request", format!("listener saw id {} first", req.id()), replay.clone());
                                    }
                                    req.reject(false).await;
                                }
                                Some(other) => out.viol("C10:sent-ordering", format!("listener.inspect() after the marker arrived returned {:?}", other.map(|o| o.is_some())), replay.clone()),
                                None => {
                                    let mut rp = replay.clone();
                                    rp["trace_tail"] = net.trace_json(30);
                                    out.viol(
                                        "C10:sent-ordering",
                                        "Connect::sent() had returned and data sent afterwards on another port arrived, but the request is not yet visible to Listener::inspect".to_string(),
                                        rp,
                                    );
                                }
                            }
                        }
                    }
                    if or_quiescent(c).await.is_none() {
                        // unresolved probe request: its credit stays taken
                        *harness_pending.lock().unwrap() += 1;
                    }
                }
            }
        }

        // ---- listener side ----
        let sh_l = sh.clone();
        let acts_l = acts.clone();
        let mut lrng = rng.fork(3);
        let mut listener = b.listener;
        let ltask = crate::sched::spawn(async move {
            let mut i = 0usize;
            loop {
                if Some(i) == drop_listener_after {
                    sh_l.lock().unwrap().listener_dropped = true;
                    drop(listener);
                    return;
                }
                let act = acts_l[i % acts_l.len()];
                if use_plain_accept && act == Act::Accept {
                    // Listener::accept directly (tag learned from the pair), possibly cancelled mid-way
                    let r = if cancel_accept {
                        let n = lrng.below(6) as u32;
                        match CancelAt::new(listener.accept(), n).await {
                            Some(r) => r,
                            None => {
                                sh_l.lock().unwrap().cancelled_accepts += 1;
                                i += 1;
                                tokio::task::yield_now().await;
                                continue;
                            }
                        }
                    } else {
                        listener.accept().await
                    };
                    match r {
                        Ok(Some((mut tx, mut rx))) => {
                            let sh2 = sh_l.clone();
                            crate::sched::spawn(async move {
                                // learn the tag from the client, then echo it
                                if let Ok(Some(d)) = rx.recv().await {
                                    let v = Vec::from(d);
                                    if v.len() == 4 {
                                        let tag = u32::from_le_bytes([v[0], v[1], v[2], v[3]]);
                                        {
                                            let mut g = sh2.lock().unwrap();
                                            g.server_actions.insert(tag, "Accept".into());
                                            g.server_read.insert(tag, Some(tag));
                                        }
                                        let _ = tx.send(Bytes::from(tag.to_le_bytes().to_vec())).await;
                                    }
                                }
                                crate::simnet::bump_progress();
                            });
                        }
                        Ok(None) => return,
                        Err(e) => {
                            sh_l.lock().unwrap().accept_errors.push(format!("Listener::accept: {e}"));
                            return;
                        }
                    }
                } else {
                    match listener.inspect().await {
                        Ok(Some(req)) => handle_request(req, act, sh_l.clone()).await,
                        Ok(None) => return,
                        Err(_) => return,
                    }
                }
                // accept one held request now and then
                let later = {
                    let mut g = sh_l.lock().unwrap();
                    if g.held.len() > 1 || (lrng.chance(30) && !g.held.is_empty()) { Some(g.held.remove(0)) } else { None }
                };
                if let Some(r) = later {
                    crate::sched::spawn(accept_req(r, sh_l.clone()));
                }
                i += 1;
            }
        });
        // requests that arrive over the base port
        let sh_p = sh.clone();
        let acts_p = acts.clone();
        let ptask = crate::sched::spawn(async move {
            let mut j = acts_p.len() / 2;
            loop {
                match rx0_b.recv_any().await {
                    Ok(Some(Received::Requests(reqs))) => {
                        for r in reqs {
                            let mut act = acts_p[j % acts_p.len()];
                            if act == Act::AcceptLater {
                                act = Act::Accept;
                            }
                            j += 1;
                            handle_request(r, act, sh_p.clone()).await;
                        }
                    }
                    Ok(Some(_)) => {}
                    _ => break,
                }
            }
        });

        // ---- client side ----
        let mut ctasks = Vec::new();
        for (tag, via_port, wait, cancel) in plans.clone() {
            let client = a.client.clone();
            let outcomes = outcomes.clone();
            let untruthful = untruthful.clone();
            let tx0 = tx0.clone();
            let hp = harness_pending.clone();
            let queue = cfg_b.connect_queue as u32;
            ctasks.push(crate::sched::spawn(async move {
                outcomes.lock().unwrap().insert(tag, Outcome::Pending);
                let alloc = client.port_allocator();
                let set = |o: Outcome| {
                    outcomes.lock().unwrap().insert(tag, o);
                    crate::simnet::bump_progress();
                };
                let connect: Result<chmux::Connect, ConnectError> = if via_port {
                    let port = if wait { Some(alloc.allocate().await) } else { alloc.try_allocate() };
                    let Some(port) = port else {
                        set(Outcome::Err("LocalPortsExhausted(harness)".into()));
                        return;
                    };
                    let mut t = tx0.lock().await;
                    match t.connect(vec![PortReq::new(port).with_id(tag)], wait).await {
                        Ok(mut v) => Ok(v.pop().unwrap()),
                        Err(e) => {
                            set(Outcome::Err(format!("Send:{e}")));
                            return;
                        }
                    }
                } else {
                    let port = if wait { Some(alloc.allocate().await) } else { alloc.try_allocate() };
                    match port {
                        None => {
                            // let connect_ext find out itself
                            let r = client.connect_ext(None, false).await;
                            if let Err(ConnectError::LocalPortsExhausted) = &r {
                                if alloc.try_allocate().is_some() {
                                    untruthful.lock().unwrap().push(format!("request {tag}: LocalPortsExhausted although a local port could be allocated at the same instant"));
                                }
                            }
                            r
                        }
                        Some(p) => {
                            let before = *hp.lock().unwrap();
                            let r = client.connect_ext(Some(PortReq::new(p).with_id(tag)), wait).await;
                            if let Err(ConnectError::TooManyPendingConnectionRequests) = &r {
                                if before < queue {
                                    untruthful.lock().unwrap().push(format!(
                                        "request {tag}: TooManyPendingConnectionRequests although at most {before} client requests were outstanding (peer queue {queue})"
                                    ));
                                }
                            }
                            r
                        }
                    }
                };
                let connect = match connect {
                    Ok(c) => c,
                    Err(e) => {
                        set(Outcome::Err(format!("{e:?}")));
                        return;
                    }
                };
                if !via_port {
                    *hp.lock().unwrap() += 1;
                }
                let res = match cancel {
                    Some(n) => match CancelAt::new(connect, n).await {
                        Some(r) => r,
                        None => {
                            // the credit stays with the internal response task: keep it counted (over-approximation)
                            set(Outcome::Cancelled);
                            return;
                        }
                    },
                    None => connect.await,
                };
                if !via_port {
                    let mut g = hp.lock().unwrap();
                    *g = g.saturating_sub(1);
                }
                match res {
                    Ok((mut tx, mut rx)) => {
                        let _ = tx.send(Bytes::from(tag.to_le_bytes().to_vec())).await;
                        let got = match rx.recv().await {
                            Ok(Some(d)) => {
                                let v = Vec::from(d);
                                (v.len() == 4).then(|| u32::from_le_bytes([v[0], v[1], v[2], v[3]]))
                            }
                            _ => None,
                        };
                        set(Outcome::Ok(got));
                    }
                    Err(e) => set(Outcome::Err(format!("{e:?}"))),
                }
            }));
        }
        settle().await;
        // accept whatever the listener task still holds, then settle again
        {
            let held: Vec<chmux::Request> = std::mem::take(&mut sh.lock().unwrap().held);
            for r in held {
                crate::sched::spawn(accept_req(r, sh.clone()));
            }
        }
        settle().await;
        drop(ltask);

        // ---- oracle ----
        let g = sh.lock().unwrap();
        let oc = outcomes.lock().unwrap();
        let mut concurrent = 0;
        let mut bad: Vec<String> = Vec::new();
        let mut closed_early = 0u32;
        let mut rejected_unseen = 0u32;
        for (tag, via_port, wait, cancel) in &plans {
            let o = oc.get(tag).cloned().unwrap_or(Outcome::Pending);
            let act = g.server_actions.get(tag).cloned();
            out.item("outcome_classes", format!("{}|{}", match &o { Outcome::Ok(_) => "Ok".to_string(), Outcome::Err(e) => e.clone(), Outcome::Cancelled => "Cancelled".into(), Outcome::Pending => "Pending".into() }, act.clone().unwrap_or("-".into())));
            match (&o, act.as_deref()) {
                (Outcome::Cancelled, _) => {}
                (Outcome::Pending, Some("Accepting")) if *wait => {
                    // Request::accept of a wait request is itself waiting for a free server port
                    out.count("pending_accept_waiting_for_port", 1);
                }
                (Outcome::Pending, Some("AcceptLater")) => {
                    // still held by a listener task that is blocked elsewhere (e.g. waiting for a free port)
                    out.count("pending_held", 1);
                }
                (Outcome::Pending, act) => {
                    // unresolved at quiescence: a violation unless the request waits for a resource that is
                    // legitimately exhausted (wait=true and ports in use by pairs that are still open)
                    if !*wait || act.is_some() {
                        bad.push(format!("request {tag} (via_port={via_port}, wait={wait}) is unresolved at quiescence; listener action: {act:?}"));
                    } else {
                        out.count("pending_waiting_for_resources", 1);
                    }
                }
                (Outcome::Ok(Some(t)), Some("Accept") | Some("AcceptLater")) => {
                    if t != tag {
                        bad.push(format!("request {tag} was connected to the pair the listener accepted for request {t}"));
                    }
                    match g.server_read.get(tag) {
                        Some(Some(r)) if r == tag => {}
                        Some(None) | None if cancel.is_some() => {}
                        other => bad.push(format!("request {tag}: the server side of its pair read {other:?}")),
                    }
                    concurrent += 1;
                }
                (Outcome::Ok(None), _) => closed_early += 1,
                (Outcome::Ok(Some(t)), other) => bad.push(format!("request {tag} connected (server tag {t}) although the listener's action was {other:?}")),
                (Outcome::Err(e), Some("RejectFalse") | Some("DropReq")) if e == "Rejected" => {}
                (Outcome::Err(e), Some("RejectTrue") | Some("AcceptNoPorts")) if e == "RemotePortsExhausted" => {}
                (Outcome::Err(e), None) if e == "Rejected" && g.listener_dropped => {}
                // a cancelled Listener::accept may already have taken the request out of the queue: it is
                // dropped with the future, which rejects it
                (Outcome::Err(e), None) if e == "Rejected" && g.cancelled_accepts > 0 => rejected_unseen += 1,
                // Listener::accept rejects no-wait requests itself when it has no local port
                (Outcome::Err(e), None) if e == "RemotePortsExhausted" && use_plain_accept && !*wait => {
                    out.count("auto_rejected_no_ports", 1);
                }
                (Outcome::Err(e), Some(_)) if e == "Rejected" && g.listener_dropped => {}
                (Outcome::Err(e), None) if e == "LocalPortsExhausted" || e == "TooManyPendingConnectionRequests" || e == "LocalPortsExhausted(harness)" => {
                    if *wait {
                        bad.push(format!("request {tag} with wait=true failed with {e}"));
                    }
                }
                (Outcome::Err(e), act) => bad.push(format!("request {tag} (via_port={via_port}, wait={wait}) failed with {e} but the listener's action was {act:?}")),
            }
        }
        if closed_early + rejected_unseen > g.cancelled_accepts {
            bad.push(format!("{closed_early} accepted pairs were closed before the server said anything and {rejected_unseen} requests were rejected unseen, but only {} accepts were cancelled", g.cancelled_accepts));
        }
        for t in &g.seen_twice {
            bad.push(format!("the listener side saw request {t} twice"));
        }
        for e in &g.accept_errors {
            bad.push(format!("listener error on a healthy connection: {e}"));
        }
        for u in untruthful.lock().unwrap().iter() {
            bad.push(u.clone());
        }
        for b_ in bad.iter().take(3) {
            let mut rp = replay.clone();
            rp["outcomes"] = json!(oc.iter().map(|(k, v)| format!("{k}: {v:?}")).collect::<Vec<_>>());
            rp["server_actions"] = json!(g.server_actions);
            rp["trace_tail"] = net.trace_json(50);
            let sig = if b_.contains("unresolved") {
                "C10:unresolved-at-quiescence"
            } else if b_.contains("connected to the pair") || b_.contains("server side of its pair") {
                "C10:mis-paired"
            } else if b_.contains("although") {
                "C10:untruthful-refusal"
            } else {
                "C10:wrong-outcome"
            };
            out.viol(sig, b_.clone(), rp);
        }
        out.count("requests", plans.len() as u64);
        out.count("accepted_pairs_verified", concurrent);
        out.count("cancelled_accepts", u64::from(g.cancelled_accepts));
        wire_violations_to(&mut out, &net, "C10", &replay);
        wire_stats_to(&mut out, &net);
        let st = net.with_mon(|m| m.stats.clone()).unwrap();
        if st.max_w5_outstanding >= 2 || plans.iter().any(|p| p.3.is_some()) || g.cancelled_accepts > 0 {
            let mut h = Fnv::new();
            for (t, o) in oc.iter() {
                h.add_u64(u64::from(*t));
                h.add_str(&format!("{o:?}"));
            }
            for (t, a) in g.server_actions.iter() {
                h.add_u64(u64::from(*t));
                h.add_str(a);
            }
            h.add_u64(net.signature());
            out.case_hash = Some(h.get());
        }
        if run < 3 {
            out.sample = Some(json!({"plan": replay, "outcomes": oc.iter().map(|(k, v)| format!("{k}: {v:?}")).collect::<Vec<_>>(), "server_actions": g.server_actions}));
        }
        drop(ptask);
        drop(rx0_a);
        drop(tx0_b);
        Ok(())
    });
    uninstall_h1();
    if let Err(e) = res {
        out.inconclusive = Some(format!("setup failed: {e}"));
    }
    for p in crate::mem::panics_since(&prefix, panics0) {
        let mut rp = replay.clone();
        rp["panic"] = json!({"thread": p.thread, "message": p.message, "location": p.location});
        out.viol("C10:panic", format!("panic at {}: {}", p.location, p.message), rp);
    }
    out
}

/// Local port exhaustion: the client endpoint has all of its `max_ports` ports open, several `connect()` calls
/// wait for a local port, some of the waiting calls are dropped, then ports are closed. Every freed port must
/// resume one of the calls still waiting (each request resolves; none is left waiting while a port is free).
pub fn run_exhaustion(run: u64, seed: u64) -> RunOut {
    let mut rng = Rng::new(seed ^ 0xe4);
    let mut cfg_a = small_cfg(&mut rng, None);
    let mut cfg_b = small_cfg(&mut rng, None);
    cfg_a.max_ports = *rng.pick(&[2u32, 3, 4]);
    cfg_b.max_ports = 64;
    cfg_a.connect_queue = 4;
    cfg_b.connect_queue = 4;
    cfg_a.receive_buffer = cfg_a.receive_buffer.max(16);
    cfg_b.receive_buffer = cfg_b.receive_buffer.max(16);
    let netcfg = draw_netcfg(&mut rng);
    let h1 = *rng.pick(&[0u64, 10, 40]);
    let n_wait = 2 + rng.usize_below(3);
    let n_cancel = rng.usize_below(n_wait);
    let cancel_newest_first = rng.chance(60);
    let n_free = 1 + rng.usize_below(cfg_a.max_ports as usize - 1);
    let replay = json!({"run": run, "seed": seed, "scenario": "local-port-exhaustion", "cfg_a": cfg_json(&cfg_a), "cfg_b": cfg_json(&cfg_b), "net": netcfg_class(&netcfg),
        "h1_pct": h1, "waiting_connects": n_wait, "waiting_connects_dropped": n_cancel, "dropped_newest_first": cancel_newest_first, "ports_closed_afterwards": n_free});
    let mut out = RunOut::default();
    let panics0 = crate::mem::panic_count();
    let prefix = crate::clock::thread_prefix();
    install_h1(rng.fork(1), h1, 0);
    let res: Result<(), String> = run_virtual(seed, async {
        let Conn { net, a, b, sched: _s } = connect_pair(cfg_a.clone(), cfg_b.clone(), netcfg.clone(), &mut rng).await?;
        // B accepts everything; each accepted pair is closed as soon as its peer has closed
        let mut listener = b.listener;
        let _ltask = crate::sched::spawn(async move {
            while let Ok(Some((tx, mut rx))) = listener.accept().await {
                crate::simnet::bump_progress();
                crate::sched::spawn(async move {
                    let _tx = tx;
                    while let Ok(Some(_)) = rx.recv().await {}
                    crate::simnet::bump_progress();
                });
            }
        });
        // use up every local port of A
        let mut held = Vec::new();
        for _ in 0..cfg_a.max_ports {
            match or_quiescent(a.client.connect()).await {
                Some(Ok(p)) => held.push(p),
                other => return Err(format!("could not open the initial ports: {:?}", other.map(|r| r.map(|_| ()).map_err(|e| e.to_string())))),
            }
        }
        if a.client.port_allocator().try_allocate().is_some() {
            return Err("ports are not exhausted".into());
        }
        let done = Arc::new(Mutex::new(Vec::<(usize, String)>::new()));
        let mut waiters = Vec::new();
        for i in 0..n_wait {
            let client = a.client.clone();
            let done = done.clone();
            waiters.push(Some(crate::sched::spawn(async move {
                let r = client.connect().await;
                done.lock().unwrap().push((i, format!("{:?}", r.as_ref().map(|_| ()).map_err(|e| e.to_string()))));
                crate::simnet::bump_progress();
                r
            })));
            settle().await;
        }
        if !done.lock().unwrap().is_empty() {
            return Err("a connect completed although no local port was free".into());
        }
        // drop some of the waiting calls
        let mut order: Vec<usize> = (0..n_wait).collect();
        if cancel_newest_first {
            order.reverse();
        } else {
            for i in (1..order.len()).rev() {
                order.swap(i, rng.usize_below(i + 1));
            }
        }
        for i in order.into_iter().take(n_cancel) {
            if let Some(w) = waiters[i].take() {
                w.abort();
                let _ = w.await;
            }
        }
        settle().await;
        let live = waiters.iter().filter(|w| w.is_some()).count();
        // close ports one at a time
        let mut freed = 0usize;
        for _ in 0..n_free {
            if held.pop().is_some() {
                freed += 1;
            }
            settle().await;
        }
        tokio::time::sleep(std::time::Duration::from_millis(5)).await;
        settle().await;
        let resolved = done.lock().unwrap().clone();
        let expect = live.min(freed);
        let still_free = a.client.port_allocator().try_allocate();
        if resolved.len() < expect {
            let mut rp = replay.clone();
            rp["resolved"] = json!(resolved.iter().map(|r| format!("{r:?}")).collect::<Vec<_>>());
            rp["trace_tail"] = net.trace_json(30);
            out.viol(
                "C10:waiting-connect-not-resumed",
                format!("{live} connect() calls were waiting for a local port, {freed} port(s) were closed on both sides, but only {} call(s) resolved by quiescence (a free local port can be allocated right now: {})", resolved.len(), still_free.is_some()),
                rp,
            );
        }
        for (i, r) in &resolved {
            if !r.starts_with("Ok") {
                out.viol("C10:wrong-outcome", format!("waiting connect {i} failed with {r} on a healthy connection with an accepting listener"), replay.clone());
            }
        }
        drop(still_free);
        out.count("exhaustion_runs", 1);
        out.count("waiting_connects", n_wait as u64);
        out.count("waiting_connects_dropped", n_cancel as u64);
        out.count("waiting_connects_resumed", resolved.len() as u64);
        let mut h = Fnv::new();
        h.add_str(&format!("exh{}{n_wait}{n_cancel}{cancel_newest_first}{n_free}{}", cfg_a.max_ports, net.signature()));
        out.case_hash = Some(h.get());
        wire_violations_to(&mut out, &net, "C10", &replay);
        drop((held, waiters));
        Ok(())
    });
    uninstall_h1();
    if let Err(e) = res {
        out.inconclusive = Some(e);
    }
    for p in crate::mem::panics_since(&prefix, panics0) {
        out.viol("C10:panic", format!("panic at {}: {}", p.location, p.message), replay.clone());
    }
    out
}
