//! C15 (watch channels converge and never go backwards) and C16 (broadcast: ordered delivery with lag markers).

use remoc::rch::{broadcast, watch};
use serde::{Deserialize, Serialize};
use serde_json::json;
use std::sync::{Arc, Mutex};

use super::{common::*, rig::*};
use crate::{
    clock::{or_quiescent, run_virtual, settle},
    evidence::RunOut,
    rng::{Fnv, Rng},
    sched::{install_h1, uninstall_h1},
};

#[derive(Serialize, Deserialize, Debug)]
pub enum WShip {
    Rx(watch::Receiver<u64>),
    Tx(watch::Sender<u64>),
    /// the sender inside a value that is large enough to be serialized twice (buffered attempt, then streaming)
    TxPad(Vec<u8>, watch::Sender<u64>, Vec<u8>),
    BRx1(broadcast::Receiver<u64, remoc::codec::Default, 1>),
    BRx2(broadcast::Receiver<u64, remoc::codec::Default, 2>),
    BRx4(broadcast::Receiver<u64, remoc::codec::Default, 4>),
}

type Obs = Arc<Mutex<Vec<u64>>>;

/// Observer task for a watch receiver: records every value it sees through the chosen API.
fn watch_observer(mut rx: watch::Receiver<u64>, api: u64, obs: Obs, closed: Arc<Mutex<bool>>) -> tokio::task::JoinHandle<watch::Receiver<u64>> {
    crate::sched::spawn(async move {
        if let Ok(v) = rx.borrow() {
            obs.lock().unwrap().push(*v);
        }
        match api {
            0 => loop {
                // changed + borrow_and_update
                if rx.changed().await.is_err() {
                    break;
                }
                crate::simnet::bump_progress();
                if let Ok(v) = rx.borrow_and_update() {
                    obs.lock().unwrap().push(*v);
                }
            },
            1 => loop {
                // changed + plain borrow
                if rx.changed().await.is_err() {
                    break;
                }
                crate::simnet::bump_progress();
                if let Ok(v) = rx.borrow() {
                    obs.lock().unwrap().push(*v);
                }
            },
            2 => {
                // wait_for successive thresholds
                let mut next = 1u64;
                loop {
                    let r = rx.wait_for(|v| *v >= next).await.map(|v| *v);
                    crate::simnet::bump_progress();
                    match r {
                        Ok(v) => {
                            obs.lock().unwrap().push(v);
                            next = v + 1;
                        }
                        Err(_) => break,
                    }
                }
            }
            _ => {
                use futures::StreamExt;
                let mut s = watch::ReceiverStream::new(rx.clone());
                while let Some(r) = s.next().await {
                    crate::simnet::bump_progress();
                    match r {
                        Ok(v) => obs.lock().unwrap().push(v),
                        Err(_) => break,
                    }
                }
            }
        }
        *closed.lock().unwrap() = true;
        rx
    })
}

pub fn c15_run(run: u64, seed: u64) -> RunOut {
    let mut rng = Rng::new(seed);
    let cfg_a = rch_cfg(&mut rng);
    let cfg_b = rch_cfg(&mut rng);
    let netcfg = draw_netcfg(&mut rng);
    let h1 = *rng.pick(&[0u64, 0, 20, 50]);
    let hops = 1 + rng.usize_below(2);
    let sender_remote = rng.chance(25);
    let pad_len: usize = if rng.chance(50) { *rng.pick(&[100usize, 1500, 12_000]) } else { 0 };
    let n_updates = 1 + rng.usize_below(40);
    let transfer_at = rng.usize_below(n_updates + 1);
    let extra_at = rng.usize_below(n_updates + 1);
    let drop_sender = rng.chance(70);
    let onward_fails = hops == 2 && rng.chance(30);
    let replay = json!({"onward_hop_fails": onward_fails, "run": run, "seed": seed, "cfg_a": cfg_json(&cfg_a), "cfg_b": cfg_json(&cfg_b), "net": netcfg_class(&netcfg), "h1_pct": h1,
        "hops": hops, "sender_remote": sender_remote, "sender_shipped_with_padding": pad_len, "updates": n_updates, "transfer_at": transfer_at, "extra_receiver_at": extra_at, "drop_sender": drop_sender});
    let mut out = RunOut::default();
    let panics0 = crate::mem::panic_count();
    let prefix = crate::clock::thread_prefix();
    install_h1(rng.fork(1), h1, 0);
    let res: Result<(), String> = run_virtual(seed, async {
        let conn1 = connect_rch::<WShip, WShip>(cfg_a.clone(), cfg_b.clone(), netcfg.clone(), &mut rng).await?;
        let RchConn { net, a, b, sched: _s1 } = conn1;
        let RchEnd { tx: mut tx_ab, rx: _rx_a, conn: _ca } = a;
        let RchEnd { tx: _tx_b, rx: mut rx_ab, conn: _cb } = b;
        // optional second hop B -> C
        let mut hop2 = if hops == 2 {
            let c = connect_rch::<WShip, WShip>(cfg_b.clone(), rch_cfg(&mut rng), draw_netcfg(&mut rng), &mut rng).await?;
            let RchConn { net: net2, a: a2, b: b2, sched: s2 } = c;
            let RchEnd { tx: tx_bc, rx: rx_b2, conn: cb2 } = a2;
            let RchEnd { tx: tx_c, rx: rx_c, conn: cc } = b2;
            Some((Some(tx_bc), Some(rx_c), (net2, rx_b2, cb2, tx_c, cc, s2)))
        } else {
            None
        };

        let (wtx, wrx) = watch::channel::<u64, remoc::codec::Default>(0);
        let mut observers: Vec<(String, Obs, Arc<Mutex<bool>>, tokio::task::JoinHandle<watch::Receiver<u64>>)> = Vec::new();
        let mut sender_local: Option<watch::Sender<u64>> = Some(wtx);
        let mut remote_sender_task = None;
        let mut pending_rx: Option<watch::Receiver<u64>> = Some(wrx);
        let (cmd_tx, mut cmd_rx) = tokio::sync::mpsc::unbounded_channel::<Option<u64>>();

        // who sends: if the sender half is remote, ship it first and drive it through commands
        if sender_remote {
            let tx = sender_local.take().unwrap();
            let ship = crate::sched::spawn(async move {
                let r = tx_ab.send(if pad_len > 0 { WShip::TxPad(vec![1u8; pad_len / 2], tx, vec![2u8; pad_len]) } else { WShip::Tx(tx) }).await.map_err(|e| e.to_string());
                (r, tx_ab)
            });
            let got = or_quiescent(rx_ab.recv()).await;
            let rtx = match got {
                Some(Ok(Some(WShip::Tx(t)))) | Some(Ok(Some(WShip::TxPad(_, t, _)))) => t,
                _ => return Err("watch sender did not arrive".into()),
            };
            let (_, t) = ship.await.map_err(|e| e.to_string())?;
            tx_ab = t;
            remote_sender_task = Some(crate::sched::spawn(async move {
                while let Some(cmd) = cmd_rx.recv().await {
                    match cmd {
                        Some(v) => {
                            let _ = rtx.send(v);
                            crate::simnet::bump_progress();
                        }
                        None => break,
                    }
                }
                drop(rtx);
            }));
        }
        let mut last_sent = 0u64;
        let mut sends_ok = true;
        for k in 0..=n_updates {
            if k == transfer_at && !sender_remote {
                // transfer the receiver half while updates are in flight
                if let Some(rx) = pending_rx.take() {
                    let ship = crate::sched::spawn(async move {
                        let r = tx_ab.send(WShip::Rx(rx)).await.map_err(|e| e.to_string());
                        (r, tx_ab)
                    });
                    // keep updating while the transfer is under way
                    if let Some(tx) = &sender_local {
                        for _ in 0..rng.below(3) {
                            last_sent += 1;
                            sends_ok &= tx.send(last_sent).is_ok();
                            tokio::task::yield_now().await;
                        }
                    }
                    let got = or_quiescent(rx_ab.recv()).await;
                    let Some(Ok(Some(WShip::Rx(rrx)))) = got else { return Err("watch receiver did not arrive".into()) };
                    let (_, t) = ship.await.map_err(|e| e.to_string())?;
                    tx_ab = t;
                    let mut who = format!("remote({hops} hops)");
                    let final_rx = if let Some(c2) = hop2.as_mut() {
                        // forward it over the second connection
                        let mut tx_bc = c2.0.take().unwrap();
                        if onward_fails {
                            // B keeps a clone and forwards the other one to an endpoint that never takes it:
                            // the failing onward hop must not disturb B's own receiver
                            let keep = rrx.clone();
                            drop(c2.1.take());
                            let ship2 = crate::sched::spawn(async move {
                                let r = tx_bc.send(WShip::Rx(rrx)).await.map_err(|e| e.to_string());
                                (r, tx_bc)
                            });
                            let _ = or_quiescent(ship2).await;
                            who = "remote(1 hop, onward hop failed)".into();
                            keep
                        } else {
                            let ship2 = crate::sched::spawn(async move {
                                let r = tx_bc.send(WShip::Rx(rrx)).await.map_err(|e| e.to_string());
                                (r, tx_bc)
                            });
                            let got = or_quiescent(c2.1.as_mut().unwrap().recv()).await;
                            let Some(Ok(Some(WShip::Rx(crx)))) = got else { return Err("watch receiver did not arrive at C".into()) };
                            let _ = ship2.await;
                            crx
                        }
                    } else {
                        rrx
                    };
                    let obs: Obs = Arc::new(Mutex::new(Vec::new()));
                    let closed = Arc::new(Mutex::new(false));
                    let h = watch_observer(final_rx, rng.below(4), obs.clone(), closed.clone());
                    observers.push((who, obs, closed, h));
                }
            }
            if k == extra_at {
                // another receiver: subscribe on the sender (local) side
                if let Some(tx) = &sender_local {
                    let obs: Obs = Arc::new(Mutex::new(Vec::new()));
                    let closed = Arc::new(Mutex::new(false));
                    let h = watch_observer(tx.subscribe(), rng.below(4), obs.clone(), closed.clone());
                    observers.push(("local-subscribe".into(), obs, closed, h));
                }
            }
            if k < n_updates {
                last_sent += 1;
                if let Some(tx) = &sender_local {
                    sends_ok &= tx.send(last_sent).is_ok();
                } else {
                    let _ = cmd_tx.send(Some(last_sent));
                }
                match rng.below(5) {
                    0 => {}
                    1 | 2 => tokio::task::yield_now().await,
                    3 => {
                        for _ in 0..rng.below(12) {
                            tokio::task::yield_now().await;
                        }
                    }
                    _ => {
                        settle().await;
                    }
                }
            }
        }
        // a receiver that stayed where the channel was created
        if sender_remote {
            if let Some(rx) = pending_rx.take() {
                let obs: Obs = Arc::new(Mutex::new(Vec::new()));
                let closed = Arc::new(Mutex::new(false));
                let h = watch_observer(rx, rng.below(4), obs.clone(), closed.clone());
                observers.push(("origin(sender remote)".into(), obs, closed, h));
            }
        }
        // the last value is sent immediately before the sender is dropped
        if drop_sender {
            drop(sender_local.take());
            let _ = cmd_tx.send(None);
        }
        settle().await;
        let _ = sends_ok;

        let mut skipped_any = false;
        for (name, obs, closed, h) in observers.iter_mut() {
            let seen = obs.lock().unwrap().clone();
            // only values that were sent, never an older one after a newer one
            let mut prev = 0u64;
            for (i, v) in seen.iter().enumerate() {
                if *v > last_sent {
                    out.viol("C15:value-never-sent", format!("{name}: observed {v} but only 0..={last_sent} were sent"), replay.clone());
                    break;
                }
                if *v < prev {
                    let mut rp = replay.clone();
                    rp["observed"] = json!(seen);
                    out.viol("C15:went-backwards", format!("{name}: observed {v} after {prev} (position {i})"), rp);
                    break;
                }
                if *v > prev + 1 {
                    skipped_any = true;
                }
                prev = *v;
            }
            // convergence: the receiver holds the last value sent
            let last_seen = seen.last().copied();
            let converged = last_seen == Some(last_sent);
            if !converged {
                // the observer may not have been notified; look at the receiver itself
                let is_closed = *closed.lock().unwrap();
                let cur = if is_closed && h.is_finished() {
                    match (&mut *h).await {
                        Ok(rx) => rx.borrow().ok().map(|v| *v),
                        Err(_) => None,
                    }
                } else {
                    None
                };
                let mut rp = replay.clone();
                rp["observed"] = json!(seen);
                rp["trace_tail"] = net.trace_json(30);
                out.viol(
                    "C15:latest-value-lost",
                    format!("{name}: last value sent is {last_sent} but the receiver last observed {last_seen:?} (borrow after close: {cur:?}) at quiescence of a healthy connection"),
                    rp,
                );
            }
            if drop_sender && !*closed.lock().unwrap() {
                out.viol("C15:close-not-observed", format!("{name}: the sender was dropped but the receiver's observation loop has not ended at quiescence"), replay.clone());
            }
            out.count("watch_observations", seen.len() as u64);
        }
        out.count("watch_receivers", observers.len() as u64);
        out.count("watch_updates", last_sent);
        wire_violations_to(&mut out, &net, "C15", &replay);
        if skipped_any || hops == 2 {
            let mut h = Fnv::new();
            h.add_u64(seed);
            h.add_u64(hops as u64);
            h.add_u64(n_updates as u64);
            h.add_u64(transfer_at as u64);
            h.add_u64(net.signature());
            out.case_hash = Some(h.get());
        }
        if run < 3 {
            out.sample = Some(json!({"plan": replay, "observed": observers.iter().map(|o| json!({"who": o.0, "values": *o.1.lock().unwrap()})).collect::<Vec<_>>()}));
        }
        drop((remote_sender_task, hop2, tx_ab));
        Ok(())
    });
    uninstall_h1();
    if let Err(e) = res {
        out.inconclusive = Some(e);
    }
    for p in crate::mem::panics_since(&prefix, panics0) {
        out.viol("C15:panic", format!("panic at {}: {}", p.location, p.message), replay.clone());
    }
    out
}

// ---------------------------------------------------------------------------------------------------

#[derive(Clone, Debug, PartialEq, Eq)]
enum BEv {
    Val(u64),
    Lagged,
    Closed,
    Err(String),
}

macro_rules! sub_task {
    ($rx:expr, $log:expr, $rate:expr, $burst:expr) => {{
        let log: Arc<Mutex<Vec<BEv>>> = $log;
        let mut rx = $rx;
        let rate: u64 = $rate;
        let burst: u64 = $burst;
        crate::sched::spawn(async move {
            loop {
                for _ in 0..burst {
                    let r = rx.recv().await;
                    crate::simnet::bump_progress();
                    match r {
                        Ok(v) => log.lock().unwrap().push(BEv::Val(v)),
                        Err(broadcast::RecvError::Lagged) => log.lock().unwrap().push(BEv::Lagged),
                        Err(broadcast::RecvError::Closed) => {
                            log.lock().unwrap().push(BEv::Closed);
                            return;
                        }
                        Err(e) => {
                            log.lock().unwrap().push(BEv::Err(e.to_string()));
                            return;
                        }
                    }
                }
                for _ in 0..rate * 10 {
                    tokio::task::yield_now().await;
                }
            }
        })
    }};
}

pub fn c16_run(run: u64, seed: u64) -> RunOut {
    let mut rng = Rng::new(seed);
    let cfg_a = rch_cfg(&mut rng);
    let cfg_b = rch_cfg(&mut rng);
    let netcfg = draw_netcfg(&mut rng);
    let h1 = *rng.pick(&[0u64, 0, 20, 50]);
    let n_subs = 1 + rng.usize_below(4);
    let n_sends = 1 + rng.usize_below(60);
    // per subscriber: (join index, send_buffer, recv buffer class, rate, burst, remote, never_reads)
    let subs: Vec<(usize, usize, usize, u64, u64, bool, bool)> = (0..n_subs)
        .map(|i| {
            (
                if i == 0 { 0 } else { rng.usize_below(n_sends) },
                *rng.pick(&[1usize, 2, 4]),
                *rng.pick(&[1usize, 2, 4]),
                rng.below(4),
                1 + rng.below(4),
                rng.chance(35),
                i > 0 && rng.chance(15),
            )
        })
        .collect();
    let keeper = rng.chance(50);
    let replay = json!({"run": run, "seed": seed, "cfg_a": cfg_json(&cfg_a), "cfg_b": cfg_json(&cfg_b), "net": netcfg_class(&netcfg), "h1_pct": h1,
        "sends": n_sends, "subscribers": subs.iter().map(|s| format!("join@{} send_buf {} recv_buf {} rate {} burst {} remote {} never_reads {}", s.0, s.1, s.2, s.3, s.4, s.5, s.6)).collect::<Vec<_>>(),
        "keeping_up_subscriber": keeper});
    let mut out = RunOut::default();
    let panics0 = crate::mem::panic_count();
    let prefix = crate::clock::thread_prefix();
    install_h1(rng.fork(1), h1, 0);
    let res: Result<(), String> = run_virtual(seed, async {
        let conn1 = connect_rch::<WShip, WShip>(cfg_a.clone(), cfg_b.clone(), netcfg.clone(), &mut rng).await?;
        let RchConn { net, a, b, sched: _s1 } = conn1;
        let RchEnd { tx: mut tx_ab, rx: _rx_a, conn: _ca } = a;
        let RchEnd { tx: _tx_b, rx: mut rx_ab, conn: _cb } = b;
        let btx: broadcast::Sender<u64> = broadcast::Sender::new();
        let mut logs: Vec<(usize, bool, Arc<Mutex<Vec<BEv>>>)> = Vec::new();
        let mut tasks = Vec::new();
        let mut idle_keep: Vec<Box<dyn std::any::Any + Send>> = Vec::new();
        // a subscriber that drains completely between all sends (local)
        let keeper_log: Arc<Mutex<Vec<BEv>>> = Arc::new(Mutex::new(Vec::new()));
        let mut keeper_rx = if keeper { Some(btx.subscribe::<4>(4)) } else { None };
        let mut sent = 0u64;
        for k in 0..=n_sends {
            for (idx, s) in subs.iter().enumerate() {
                if s.0 != k {
                    continue;
                }
                let log: Arc<Mutex<Vec<BEv>>> = Arc::new(Mutex::new(Vec::new()));
                logs.push((idx, s.6, log.clone()));
                macro_rules! attach {
                    ($N:literal, $variant:ident) => {{
                        let rx = btx.subscribe::<$N>(s.1);
                        if s.5 {
                            let ship = crate::sched::spawn(async move {
                                let r = tx_ab.send(WShip::$variant(rx)).await.map_err(|e| e.to_string());
                                (r, tx_ab)
                            });
                            let got = or_quiescent(rx_ab.recv()).await;
                            let Some(Ok(Some(WShip::$variant(rrx)))) = got else { return Err("broadcast receiver did not arrive".into()) };
                            let (_, t) = ship.await.map_err(|e| e.to_string())?;
                            tx_ab = t;
                            if s.6 {
                                idle_keep.push(Box::new(rrx));
                            } else {
                                tasks.push(sub_task!(rrx, log.clone(), s.3, s.4));
                            }
                        } else if s.6 {
                            idle_keep.push(Box::new(rx));
                        } else {
                            tasks.push(sub_task!(rx, log.clone(), s.3, s.4));
                        }
                    }};
                }
                match s.2 {
                    1 => attach!(1, BRx1),
                    2 => attach!(2, BRx2),
                    _ => attach!(4, BRx4),
                }
            }
            if k < n_sends {
                sent += 1;
                if let Err(e) = btx.send(sent) {
                    // subscriber 0 joined before the first send and every subscriber stays alive for the whole run
                    out.viol(
                        "C16:send-failed-with-live-subscribers",
                        format!("broadcast send of {sent} failed ({}) although {} subscriber(s) are alive (receiver_count {})", e.without_item(), logs.len(), btx.receiver_count()),
                        replay.clone(),
                    );
                }
                crate::simnet::bump_progress();
                if let Some(krx) = keeper_rx.as_mut() {
                    // drains between all sends
                    loop {
                        match krx.try_recv() {
                            Ok(v) => keeper_log.lock().unwrap().push(BEv::Val(v)),
                            Err(broadcast::TryRecvError::Lagged) => keeper_log.lock().unwrap().push(BEv::Lagged),
                            Err(_) => break,
                        }
                    }
                }
                match rng.below(6) {
                    0 | 1 => {}
                    2 | 3 => tokio::task::yield_now().await,
                    4 => {
                        for _ in 0..rng.below(15) {
                            tokio::task::yield_now().await;
                        }
                    }
                    _ => {
                        settle().await;
                    }
                }
            }
        }
        settle().await;
        drop(btx);
        settle().await;

        let mut lag_seen = false;
        let check = |name: String, evs: &Vec<BEv>, first_possible: u64, out: &mut RunOut, lag_seen: &mut bool| {
            let mut prev: Option<u64> = None;
            let mut lag_pending = false;
            for (i, e) in evs.iter().enumerate() {
                match e {
                    BEv::Val(v) => {
                        if *v > sent || *v == 0 {
                            out.viol("C16:value-never-sent", format!("{name}: received {v}, sent were 1..={sent}"), replay.clone());
                            return;
                        }
                        if let Some(p) = prev {
                            if *v <= p {
                                let mut rp = replay.clone();
                                rp["events"] = json!(evs.iter().map(|e| format!("{e:?}")).collect::<Vec<_>>());
                                out.viol("C16:duplicate-or-out-of-order", format!("{name}: received {v} after {p} (position {i})"), rp);
                                return;
                            }
                            if *v > p + 1 && !lag_pending {
                                let mut rp = replay.clone();
                                rp["events"] = json!(evs.iter().map(|e| format!("{e:?}")).collect::<Vec<_>>());
                                out.viol("C16:gap-without-lag-marker", format!("{name}: values {}..{} were skipped without a Lagged error before {v}", p + 1, v - 1), rp);
                                return;
                            }
                            if *v == p + 1 && lag_pending {
                                let mut rp = replay.clone();
                                rp["events"] = json!(evs.iter().map(|e| format!("{e:?}")).collect::<Vec<_>>());
                                out.viol("C16:lag-marker-without-gap", format!("{name}: Lagged reported between {p} and {v} although nothing was skipped"), rp);
                                return;
                            }
                        } else if lag_pending && *v <= first_possible {
                            // a lag before the first value is only meaningful if something was skipped
                        }
                        lag_pending = false;
                        prev = Some(*v);
                    }
                    BEv::Lagged => {
                        *lag_seen = true;
                        lag_pending = true;
                    }
                    BEv::Closed => {}
                    BEv::Err(e) => {
                        out.viol("C16:subscriber-error", format!("{name}: error on a healthy connection: {e}"), replay.clone());
                        return;
                    }
                }
            }
        };
        for (idx, never_reads, log) in &logs {
            if *never_reads {
                continue;
            }
            let evs = log.lock().unwrap().clone();
            let s = &subs[*idx];
            check(format!("subscriber {idx} ({})", if s.5 { "remote" } else { "local" }), &evs, s.0 as u64 + 1, &mut out, &mut lag_seen);
            // by quiescence after the sender was dropped, every reading subscriber must have reached Closed
            if !matches!(evs.last(), Some(BEv::Closed)) {
                let mut rp = replay.clone();
                rp["events_tail"] = json!(evs.iter().rev().take(6).map(|e| format!("{e:?}")).collect::<Vec<_>>());
                rp["trace_tail"] = net.trace_json(20);
                out.viol("C16:subscriber-stalled", format!("subscriber {idx} keeps reading but has not reached the end of the broadcast at quiescence (slow or idle other subscribers must not delay it)"), rp);
            }
            // the last value is never skipped silently: the subscriber either got it or a Lagged after its last value
            let last_val = evs.iter().rev().find_map(|e| if let BEv::Val(v) = e { Some(*v) } else { None });
            let lag_after = evs.iter().rev().take_while(|e| !matches!(e, BEv::Val(_))).any(|e| *e == BEv::Lagged);
            if sent > s.0 as u64 && last_val != Some(sent) && !lag_after && matches!(evs.last(), Some(BEv::Closed)) {
                let mut rp = replay.clone();
                rp["events_tail"] = json!(evs.iter().rev().take(6).map(|e| format!("{e:?}")).collect::<Vec<_>>());
                out.viol("C16:gap-without-lag-marker", format!("subscriber {idx}: the broadcast ended at {sent}, the subscriber's last value is {last_val:?} and no Lagged followed it"), rp);
            }
            out.count("broadcast_events_observed", evs.len() as u64);
        }
        if keeper {
            let evs = keeper_log.lock().unwrap().clone();
            let vals: Vec<u64> = evs.iter().filter_map(|e| if let BEv::Val(v) = e { Some(*v) } else { None }).collect();
            if evs.contains(&BEv::Lagged) || vals != (1..=sent).collect::<Vec<u64>>() {
                let mut rp = replay.clone();
                rp["events"] = json!(evs.iter().map(|e| format!("{e:?}")).collect::<Vec<_>>());
                out.viol("C16:keeping-up-subscriber-lost-values", format!("a subscriber that drained between all sends saw {} of {sent} values, lagged={}", vals.len(), evs.contains(&BEv::Lagged)), rp);
            }
        }
        out.count("broadcast_sends", sent);
        out.count("broadcast_subscribers", n_subs as u64);
        wire_violations_to(&mut out, &net, "C16", &replay);
        if lag_seen {
            let mut h = Fnv::new();
            h.add_u64(seed);
            for s in &subs {
                h.add_str(&format!("{s:?}"));
            }
            h.add_u64(net.signature());
            out.case_hash = Some(h.get());
            out.count("runs_with_lag", 1);
        }
        if run < 3 {
            out.sample = Some(json!({"plan": replay, "events": logs.iter().map(|l| l.2.lock().unwrap().iter().map(|e| format!("{e:?}")).collect::<Vec<_>>()).collect::<Vec<_>>()}));
        }
        drop((tasks, idle_keep, tx_ab, keeper_rx));
        Ok(())
    });
    uninstall_h1();
    if let Err(e) = res {
        out.inconclusive = Some(e);
    }
    for p in crate::mem::panics_since(&prefix, panics0) {
        out.viol("C16:panic", format!("panic at {}: {}", p.location, p.message), replay.clone());
    }
    out
}


/// Parallel senders: clones of one broadcast sender used from several OS threads at once. Subscribers whose
/// buffers can hold everything must receive every value, in per-thread order, without any lag marker, and no
/// send may fail.
pub fn c16_parallel(seed: u64, threads: usize, per_thread: u64) -> RunOut {
    let mut out = RunOut::default();
    let replay = json!({"seed": seed, "parallel_senders": threads, "values_per_thread": per_thread});
    let total = threads as u64 * per_thread;
    let res = crate::clock::run_threads(4, async move {
        let btx: broadcast::Sender<u64> = broadcast::Sender::new();
        let mut subs = vec![btx.subscribe::<4>(total as usize + 16), btx.subscribe::<4>(total as usize + 16)];
        let failed = Arc::new(Mutex::new(0u64));
        let mut handles = Vec::new();
        for t in 0..threads as u64 {
            let tx = btx.clone();
            let failed = failed.clone();
            handles.push(tokio::task::spawn_blocking(move || {
                for i in 0..per_thread {
                    if tx.send((t << 32) | i).is_err() {
                        *failed.lock().unwrap() += 1;
                    }
                }
            }));
        }
        for h in handles {
            let _ = h.await;
        }
        let mut problems: Vec<String> = Vec::new();
        let f = *failed.lock().unwrap();
        if f > 0 {
            problems.push(format!("{f} sends failed although both subscribers are alive"));
        }
        for (si, sub) in subs.iter_mut().enumerate() {
            let mut next = vec![0u64; threads];
            let mut n = 0u64;
            loop {
                match sub.try_recv() {
                    Ok(v) => {
                        let (t, i) = ((v >> 32) as usize, v & 0xffff_ffff);
                        if i != next[t] {
                            problems.push(format!("subscriber {si}: value {i} of sender thread {t} arrived where {} was expected (gap or reordering without lag marker)", next[t]));
                            next[t] = i;
                        }
                        next[t] += 1;
                        n += 1;
                    }
                    Err(broadcast::TryRecvError::Lagged) => problems.push(format!("subscriber {si}: Lagged although its buffer holds everything")),
                    Err(_) => break,
                }
                if problems.len() > 5 {
                    break;
                }
            }
            if n != total && problems.is_empty() {
                problems.push(format!("subscriber {si}: received {n} of {total} values"));
            }
        }
        problems
    });
    for p in res.iter().take(2) {
        out.viol("C16:parallel-senders:lost-or-unmarked", p.clone(), replay.clone());
    }
    out.count("parallel_values_sent", total);
    let mut h = Fnv::new();
    h.add_u64(seed ^ 0xabcdef);
    out.case_hash = Some(h.get());
    out
}

/// A value whose deserialization fails on the receiving endpoint for some values (an item that "fails
/// individually" on the receive side).
#[derive(Clone, Debug, PartialEq, Eq, serde::Serialize)]
pub struct Picky(pub u64);

impl<'de> serde::Deserialize<'de> for Picky {
    fn deserialize<D: serde::Deserializer<'de>>(d: D) -> Result<Self, D::Error> {
        let v = u64::deserialize(d)?;
        if v % 5 == 3 {
            return Err(serde::de::Error::custom("picky value refused"));
        }
        Ok(Picky(v))
    }
}

#[derive(serde::Serialize, serde::Deserialize)]
pub enum PShip {
    Rx(watch::Receiver<Picky>),
}

/// C15, receive-side item errors: values that the receiving endpoint cannot decode are reported as errors and
/// do not end the channel: the receiver converges to the latest decodable value.
pub fn c15_picky(run: u64, seed: u64) -> RunOut {
    let mut rng = Rng::new(seed ^ 0x91c);
    let cfg_a = rch_cfg(&mut rng);
    let cfg_b = rch_cfg(&mut rng);
    let netcfg = draw_netcfg(&mut rng);
    let h1 = *rng.pick(&[0u64, 0, 20, 50]);
    let n_updates = 2 + rng.usize_below(20);
    let settle_every = 1 + rng.usize_below(4);
    let drop_sender = rng.chance(60);
    let replay = json!({"run": run, "seed": seed, "scenario": "receiver cannot decode every 5th value (v % 5 == 3)", "cfg_a": cfg_json(&cfg_a), "cfg_b": cfg_json(&cfg_b), "net": netcfg_class(&netcfg), "h1_pct": h1,
        "updates": n_updates, "settle_every": settle_every, "drop_sender": drop_sender});
    let mut out = RunOut::default();
    let panics0 = crate::mem::panic_count();
    let prefix = crate::clock::thread_prefix();
    install_h1(rng.fork(1), h1, 0);
    let res: Result<(), String> = run_virtual(seed, async {
        let conn = connect_rch::<PShip, ()>(cfg_a.clone(), cfg_b.clone(), netcfg.clone(), &mut rng).await?;
        let RchConn { net, a, b, sched: _s } = conn;
        let RchEnd { tx: mut tx_ab, rx: _rx_a, conn: _ca } = a;
        let RchEnd { tx: _tx_b, rx: mut rx_ab, conn: _cb } = b;
        let (wtx, wrx) = watch::channel::<Picky, remoc::codec::Default>(Picky(0));
        let ship = crate::sched::spawn(async move {
            let r = tx_ab.send(PShip::Rx(wrx)).await.map_err(|e| e.to_string());
            (r, tx_ab)
        });
        let got = or_quiescent(rx_ab.recv()).await;
        let Some(Ok(Some(PShip::Rx(mut rrx)))) = got else { return Err("watch receiver did not arrive".into()) };
        let _ = ship.await;
        let seen: Arc<Mutex<Vec<Result<u64, String>>>> = Arc::new(Mutex::new(Vec::new()));
        let seen2 = seen.clone();
        let closed = Arc::new(Mutex::new(false));
        let closed2 = closed.clone();
        let otask = crate::sched::spawn(async move {
            loop {
                if rrx.changed().await.is_err() {
                    *closed2.lock().unwrap() = true;
                    break;
                }
                crate::simnet::bump_progress();
                let r = rrx.borrow_and_update().map(|v| v.0).map_err(|e| e.to_string());
                seen2.lock().unwrap().push(r);
            }
            rrx
        });
        let mut last = 0u64;
        let mut sent_picky = 0u64;
        for k in 1..=n_updates as u64 {
            // the last value is one the receiver can decode
            let v = if k == n_updates as u64 && k % 5 == 3 { k + 1 } else { k };
            if v % 5 == 3 {
                sent_picky += 1;
            }
            if let Err(e) = wtx.send(Picky(v)) {
                // the remote receiver is alive (the observer holds it) and the connection is healthy
                let mut rp = replay.clone();
                rp["observed"] = json!(seen.lock().unwrap().iter().map(|r| format!("{r:?}")).collect::<Vec<_>>());
                out.viol("C15:closed-while-receiver-alive", format!("sending update {v} failed ({e}) although the remote receiver is alive and the connection healthy ({sent_picky} undecodable values sent before)"), rp);
                return Ok(());
            }
            last = v;
            if k as usize % settle_every == 0 {
                settle().await;
            }
        }
        settle().await;
        if drop_sender {
            drop(wtx);
            settle().await;
        }
        let s = seen.lock().unwrap().clone();
        let last_ok = s.iter().rev().find_map(|r| r.as_ref().ok().copied());
        let errors = s.iter().filter(|r| r.is_err()).count();
        let mut bad: Vec<(String, String)> = Vec::new();
        if last_ok != Some(last) {
            bad.push(("C15:latest-value-lost".into(), format!("receiver that cannot decode some intermediate values ({sent_picky} sent, {errors} errors observed): last value sent is {last} but the receiver last observed {last_ok:?} at quiescence of a healthy connection (receiver closed: {})", *closed.lock().unwrap())));
        }
        let oks: Vec<u64> = s.iter().filter_map(|r| r.as_ref().ok().copied()).collect();
        if oks.windows(2).any(|w| w[1] < w[0]) {
            bad.push(("C15:went-backwards".into(), format!("observed values {oks:?}")));
        }
        if oks.iter().any(|v| v % 5 == 3) {
            bad.push(("C15:value-never-sent".into(), format!("an undecodable value was observed: {oks:?}")));
        }
        if !drop_sender && *closed.lock().unwrap() {
            bad.push(("C15:closed-while-sender-alive".into(), format!("the receiver reports the channel closed although the sender is alive and the connection healthy (after {errors} item errors)")));
        }
        for (sig, d) in bad.into_iter().take(2) {
            let mut rp = replay.clone();
            rp["observed"] = json!(s.iter().map(|r| format!("{r:?}")).collect::<Vec<_>>());
            rp["trace_tail"] = net.trace_json(20);
            out.viol(sig, d, rp);
        }
        out.count("picky_runs", 1);
        out.count("undecodable_values_sent", sent_picky);
        out.count("item_errors_observed", errors as u64);
        let mut h = Fnv::new();
        h.add_str(&format!("picky{n_updates}{settle_every}{drop_sender}{}{errors}", oks.len()));
        h.add_u64(net.signature());
        if sent_picky > 0 {
            out.case_hash = Some(h.get());
        }
        drop(otask);
        Ok(())
    });
    uninstall_h1();
    if let Err(e) = res {
        out.inconclusive = Some(e);
    }
    for p in crate::mem::panics_since(&prefix, panics0) {
        out.viol("C15:panic", format!("panic at {}: {}", p.location, p.message), replay.clone());
    }
    out
}
