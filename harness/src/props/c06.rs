//! C06 Fail-stop: a transport fault at any frame errors every operation and hangs nothing.
//!
//! A fixed chmux workload is first run cleanly to learn the number of frames per direction; then every
//! (direction, frame index, fault kind, peer-drop visibility) is injected (fault enumeration).

use bytes::{Buf, Bytes};
use remoc::chmux::{ChMux, ChMuxError, PortReq, Received};
use serde_json::json;
use std::{
    sync::{Arc, Mutex},
    time::Duration,
};

use super::common::*;
use crate::{
    clock::{run_virtual, settle},
    evidence::RunOut,
    rng::{Fnv, Rng, payload},
    sched::{Ops, install_h1, uninstall_h1},
    simnet::{ALL_FAULTS, Delivery, Dir, Fault, FaultKind, Net, NetCfg, run_scheduler},
    wiremon::{EpCfg, Mode, WireMon},
};

pub const T_A: u64 = 10;
pub const T_B: u64 = 60;

fn cfgs(sym: bool) -> (remoc::chmux::Cfg, remoc::chmux::Cfg) {
    let a = mk_cfg(16, 64, 4096, (2, 2, 2), 4, 16, Some(Duration::from_secs(T_A)));
    let b = mk_cfg(8, 48, 4096, (2, 2, 2), 4, 16, Some(Duration::from_secs(if sym { T_A } else { T_B })));
    (a, b)
}

#[derive(Default)]
pub struct Log {
    /// (stream name, sent payloads, received payloads)
    pub streams: Vec<(String, Vec<Vec<u8>>, Vec<Vec<u8>>)>,
    pub run_results: [Option<String>; 2],
    pub new_results: [Option<String>; 2],
}

fn err_class(e: &ChMuxError<std::io::Error, std::io::Error>) -> String {
    match e {
        ChMuxError::SinkError(_) => "SinkError".into(),
        ChMuxError::StreamError(_) => "StreamError".into(),
        ChMuxError::StreamClosed => "StreamClosed".into(),
        ChMuxError::Reset => "Reset".into(),
        ChMuxError::Timeout => "Timeout".into(),
        ChMuxError::Protocol(p) => format!("Protocol({p})"),
    }
}

async fn endpoint_a(
    cfg: remoc::chmux::Cfg, sink: crate::simnet::NetSink, stream: crate::simnet::NetStream, ops: Ops, log: Arc<Mutex<Log>>, orderly_end: bool,
) {
    let id = ops.begin("A:ChMux::new");
    let (mux, client, listener) = match ChMux::new(cfg, sink, stream).await {
        Ok(x) => {
            ops.end(id, "ok");
            x
        }
        Err(e) => {
            ops.end(id, format!("err {}", err_class(&e)));
            log.lock().unwrap().new_results[0] = Some(err_class(&e));
            return;
        }
    };
    let log2 = log.clone();
    let ops2 = ops.clone();
    crate::sched::spawn(async move {
        let id = ops2.begin("A:run");
        let r = mux.run().await;
        let s = match &r {
            Ok(()) => "Ok".to_string(),
            Err(e) => err_class(e),
        };
        log2.lock().unwrap().run_results[0] = Some(s.clone());
        ops2.end(id, s);
    });
    // pending accept on A's listener: must fail/end after a fault
    let ops3 = ops.clone();
    let mut listener = listener;
    crate::sched::spawn(async move {
        let id = ops3.begin("A:listener.accept(pending)");
        let r = listener.accept().await;
        ops3.end(id, format!("{:?}", r.map(|o| o.is_some()).map_err(|e| e.to_string())));
    });

    let id = ops.begin("A:client.connect");
    let (mut tx, mut rx) = match client.connect().await {
        Ok(p) => {
            ops.end(id, "ok");
            p
        }
        Err(e) => {
            ops.end(id, format!("err {e}"));
            return;
        }
    };
    // closed() notification future
    let closed = tx.closed();
    let ops4 = ops.clone();
    crate::sched::spawn(async move {
        let id = ops4.begin("A:tx.closed()");
        closed.await;
        ops4.end(id, "resolved");
    });
    // M1: multi-chunk message A -> B
    let m1 = payload(1, 100);
    log.lock().unwrap().streams.push(("p1 A>B".into(), vec![], vec![]));
    log.lock().unwrap().streams.push(("p1 B>A".into(), vec![], vec![]));
    let id = ops.begin("A:send(M1,100B)");
    let r = tx.send(Bytes::from(m1.clone())).await;
    ops.end(id, format!("{r:?}"));
    if r.is_ok() {
        log.lock().unwrap().streams[0].1.push(m1);
    } else {
        return;
    }
    // M2 from B
    let id = ops.begin("A:recv(M2)");
    let r = rx.recv().await;
    ops.end(id, format!("{:?}", r.as_ref().map(|o| o.as_ref().map(|d| d.remaining())).map_err(|e| e.to_string())));
    match r {
        Ok(Some(d)) => log.lock().unwrap().streams[1].2.push(Vec::from(d)),
        _ => return,
    }
    // port-in-port
    let alloc = tx.port_allocator();
    let Some(p) = alloc.try_allocate() else { return };
    let id = ops.begin("A:tx.connect(1 port)");
    let c = tx.connect(vec![PortReq::new(p)], true).await;
    ops.end(id, format!("{:?}", c.as_ref().map(|v| v.len()).map_err(|e| e.to_string())));
    let Ok(mut cs) = c else { return };
    let id = ops.begin("A:Connect(port-in-port)");
    let r = cs.pop().unwrap().await;
    ops.end(id, format!("{:?}", r.as_ref().map(|_| ()).map_err(|e| e.to_string())));
    let Ok((mut tx2, mut rx2)) = r else { return };
    log.lock().unwrap().streams.push(("p2 A>B".into(), vec![], vec![]));
    let m3 = payload(3, 40);
    let id = ops.begin("A:send(M3,40B)");
    let r = tx2.send(Bytes::from(m3.clone())).await;
    ops.end(id, format!("{r:?}"));
    if r.is_ok() {
        log.lock().unwrap().streams[2].1.push(m3);
    }
    if orderly_end {
        // wait for B's goodbye message on p2, then drop everything
        let id = ops.begin("A:recv(done)");
        let r = rx2.recv().await;
        ops.end(id, format!("{:?}", r.map(|o| o.map(|d| d.remaining())).map_err(|e| e.to_string())));
        drop((tx, rx, tx2, rx2, client));
    } else {
        let id = ops.begin("A:rx2.recv(idle)");
        let r = rx2.recv().await;
        ops.end(id, format!("{:?}", r.map(|o| o.map(|d| d.remaining())).map_err(|e| e.to_string())));
        drop((tx, rx, tx2, client));
    }
}

async fn endpoint_b(
    cfg: remoc::chmux::Cfg, sink: crate::simnet::NetSink, stream: crate::simnet::NetStream, ops: Ops, log: Arc<Mutex<Log>>, orderly_end: bool,
) {
    let id = ops.begin("B:ChMux::new");
    let (mux, client, mut listener) = match ChMux::new(cfg, sink, stream).await {
        Ok(x) => {
            ops.end(id, "ok");
            x
        }
        Err(e) => {
            ops.end(id, format!("err {}", err_class(&e)));
            log.lock().unwrap().new_results[1] = Some(err_class(&e));
            return;
        }
    };
    let log2 = log.clone();
    let ops2 = ops.clone();
    crate::sched::spawn(async move {
        let id = ops2.begin("B:run");
        let r = mux.run().await;
        let s = match &r {
            Ok(()) => "Ok".to_string(),
            Err(e) => err_class(e),
        };
        log2.lock().unwrap().run_results[1] = Some(s.clone());
        ops2.end(id, s);
    });
    // a client connect that nobody answers in time: A's listener accepts it only ... never (A accept pending is
    // consumed by this), so this completes Ok on a healthy connection and must fail after a fault
    let ops3 = ops.clone();
    let cl = client.clone();
    crate::sched::spawn(async move {
        let id = ops3.begin("B:client.connect");
        let r = cl.connect().await;
        ops3.end(id, format!("{:?}", r.as_ref().map(|_| ()).map_err(|e| e.to_string())));
        if let Ok((_tx, mut rx)) = r {
            let id = ops3.begin("B:rx3.recv(idle)");
            let r = rx.recv().await;
            ops3.end(id, format!("{:?}", r.map(|o| o.map(|d| d.remaining())).map_err(|e| e.to_string())));
        }
    });
    let id = ops.begin("B:listener.accept");
    let (mut tx, mut rx) = match listener.accept().await {
        Ok(Some(p)) => {
            ops.end(id, "ok");
            p
        }
        other => {
            ops.end(id, format!("{:?}", other.map(|o| o.is_some()).map_err(|e| e.to_string())));
            return;
        }
    };
    let id = ops.begin("B:recv(M1)");
    let r = rx.recv().await;
    ops.end(id, format!("{:?}", r.as_ref().map(|o| o.as_ref().map(|d| d.remaining())).map_err(|e| e.to_string())));
    match r {
        Ok(Some(d)) => {
            let mut g = log.lock().unwrap();
            if let Some(s) = g.streams.iter_mut().find(|s| s.0 == "p1 A>B") {
                s.2.push(Vec::from(d));
            }
        }
        _ => return,
    }
    let m2 = payload(2, 70);
    let id = ops.begin("B:send(M2,70B)");
    let r = tx.send(Bytes::from(m2.clone())).await;
    ops.end(id, format!("{r:?}"));
    if r.is_ok() {
        let mut g = log.lock().unwrap();
        if let Some(s) = g.streams.iter_mut().find(|s| s.0 == "p1 B>A") {
            s.1.push(m2);
        }
    } else {
        return;
    }
    let id = ops.begin("B:recv_any(ports)");
    let r = rx.recv_any().await;
    ops.end(id, format!("{:?}", r.as_ref().map(|o| o.is_some()).map_err(|e| e.to_string())));
    let Ok(Some(Received::Requests(mut reqs))) = r else { return };
    let id = ops.begin("B:request.accept");
    let r = reqs.pop().unwrap().accept().await;
    ops.end(id, format!("{:?}", r.as_ref().map(|_| ()).map_err(|e| e.to_string())));
    let Ok((mut tx2, mut rx2)) = r else { return };
    let id = ops.begin("B:recv(M3)");
    let r = rx2.recv().await;
    ops.end(id, format!("{:?}", r.as_ref().map(|o| o.as_ref().map(|d| d.remaining())).map_err(|e| e.to_string())));
    if let Ok(Some(d)) = r {
        let mut g = log.lock().unwrap();
        if let Some(s) = g.streams.iter_mut().find(|s| s.0 == "p2 A>B") {
            s.2.push(Vec::from(d));
        }
    } else {
        return;
    }
    if orderly_end {
        let id = ops.begin("B:send(done)");
        let r = tx2.send(Bytes::from_static(b"done")).await;
        ops.end(id, format!("{r:?}"));
        drop((tx, rx, tx2, rx2, client, listener));
    } else {
        let id = ops.begin("B:rx.recv(idle)");
        let r = rx.recv().await;
        ops.end(id, format!("{:?}", r.map(|o| o.map(|d| d.remaining())).map_err(|e| e.to_string())));
        drop((tx, tx2, rx2, client, listener));
    }
}

pub struct Case {
    pub fault: Option<Fault>,
    pub drop_visible: bool,
    pub delivery: Delivery,
    pub h1: u64,
    pub sym: bool,
    pub orderly_end: bool,
}

pub struct CaseResult {
    pub frames: (usize, usize),
    pub fault_fired: bool,
    pub out: RunOut,
}

pub fn run_case(seed: u64, case: &Case) -> CaseResult {
    let mut rng = Rng::new(seed);
    let (cfg_a, cfg_b) = cfgs(case.sym);
    // every other fault position runs over a transport that buffers until flush
    let buffered = case.fault.map(|f| f.at % 2 == 1).unwrap_or(false);
    let netcfg = NetCfg { capacity: 0, delivery: case.delivery, drop_visible: case.drop_visible, fault: case.fault, flush_required: buffered, ..NetCfg::default() };
    let replay = json!({"seed": seed, "fault": case.fault.map(|f| format!("{:?} at frame {} of {}", f.kind, f.at, f.dir.name())),
        "drop_visible": case.drop_visible, "delivery": format!("{:?}", case.delivery), "h1_pct": case.h1, "symmetric_timeouts": case.sym,
        "orderly_end": case.orderly_end});
    let mut out = RunOut::default();
    let panics0 = crate::mem::panic_count();
    let prefix = crate::clock::thread_prefix();
    install_h1(rng.fork(1), case.h1, 0);
    let mut frames = (0, 0);
    let mut fired = false;
    run_virtual(seed, async {
        let mon = WireMon::new(EpCfg::from_cfg(&cfg_a), EpCfg::from_cfg(&cfg_b), Mode::Full);
        let net = Net::new(netcfg.clone(), Some(mon));
        let ((sa, ra), (sb, rb)) = net.endpoints();
        let _sched = match netcfg.delivery {
            Delivery::Eager => None,
            _ => Some(crate::sched::spawn(run_scheduler(net.clone(), rng.fork(77)))),
        };
        let ops = Ops::new();
        let log = Arc::new(Mutex::new(Log::default()));
        let ta = crate::sched::spawn(endpoint_a(cfg_a.clone(), sa, ra, ops.clone(), log.clone(), case.orderly_end));
        let tb = crate::sched::spawn(endpoint_b(cfg_b.clone(), sb, rb, ops.clone(), log.clone(), case.orderly_end));
        settle().await;
        fired = net.fault_fired();
        let pending_at_q: Vec<String> = ops.pending();

        if let Some(f) = case.fault {
            if fired {
                // The endpoint that observes the fault directly must have terminated by quiescence.
                let direct: Option<(usize, &str)> = match f.kind {
                    FaultKind::SinkError => Some((f.dir.idx(), "SinkError")),
                    FaultKind::StreamError => Some((1 - f.dir.idx(), "StreamError")),
                    FaultKind::Eof => Some((1 - f.dir.idx(), "StreamClosed")),
                    _ => None,
                };
                if let Some((ep, class)) = direct {
                    let g = log.lock().unwrap();
                    let got = g.run_results[ep].clone().or(g.new_results[ep].clone());
                    let name = ["A", "B"][ep];
                    match got {
                        None => {
                            let mut rp = replay.clone();
                            rp["pending"] = json!(pending_at_q);
                            rp["trace_tail"] = net.trace_json(30);
                            out.viol(
                                "C06:dispatcher-did-not-stop-on-observable-fault",
                                format!("endpoint {name} observed {:?} directly but its dispatcher has not terminated at quiescence", f.kind),
                                rp,
                            );
                        }
                        Some(c) if c == class || c == "Ok" => {}
                        // another error may legitimately win the race (e.g. the peer's reaction arrives first)
                        Some(c) if ["SinkError", "StreamError", "StreamClosed", "Timeout", "Reset"].contains(&c.as_str()) => {
                            out.count("direct_observer_other_class", 1);
                        }
                        Some(c) => {
                            let mut rp = replay.clone();
                            rp["trace_tail"] = net.trace_json(30);
                            out.viol("C06:wrong-error-class", format!("endpoint {name} observed {:?} but its dispatcher returned {c}", f.kind), rp);
                        }
                    }
                }
            }
            // let every timeout expire (virtual time), then everything must have completed
            tokio::time::sleep(Duration::from_secs(3 * (T_A + T_B))).await;
            settle().await;
            let pending = ops.pending();
            if fired && !pending.is_empty() {
                let mut rp = replay.clone();
                rp["pending"] = json!(pending);
                rp["ops"] = json!(ops.all().iter().map(|o| format!("{} => {:?}", o.name, o.result)).collect::<Vec<_>>());
                rp["trace_tail"] = net.trace_json(30);
                out.viol(
                    "C06:operation-pending-after-fault",
                    format!("{} operation(s) still pending {} virtual seconds after the fault: {:?}", pending.len(), 3 * (T_A + T_B), pending),
                    rp,
                );
            }
            if fired {
                let g = log.lock().unwrap();
                for (ep, name) in [(0, "A"), (1, "B")] {
                    let r = g.run_results[ep].clone().or(g.new_results[ep].clone());
                    out.item("dispatcher_results", format!("{:?}:{}:{}", f.kind, name, r.clone().unwrap_or("-".into())));
                    if let Some(c) = &r {
                        if c.starts_with("Protocol") {
                            let mut rp = replay.clone();
                            rp["trace_tail"] = net.trace_json(30);
                            out.viol("C06:wrong-error-class", format!("endpoint {name} reported a protocol error for a transport fault: {c}"), rp);
                        }
                    }
                }
            }
        } else {
            // healthy run
            if case.orderly_end {
                let pending = ops.pending();
                // in the orderly variant everything except nothing may remain
                let g = log.lock().unwrap();
                if !pending.is_empty() || g.run_results[0].as_deref() != Some("Ok") || g.run_results[1].as_deref() != Some("Ok") {
                    let mut rp = replay.clone();
                    rp["pending"] = json!(pending);
                    rp["ops"] = json!(ops.all().iter().map(|o| format!("{} => {:?}", o.name, o.result)).collect::<Vec<_>>());
                    rp["trace_tail"] = net.trace_json(40);
                    out.viol("C06:healthy-run-did-not-finish", format!("clean workload: pending {pending:?}, dispatcher results {:?}", g.run_results), rp);
                }
            }
        }
        // prefix property of what was received
        {
            let g = log.lock().unwrap();
            for (name, sent, recvd) in &g.streams {
                let ok = recvd.len() <= sent.len().max(1) && recvd.iter().zip(sent.iter()).all(|(r, s)| r == s);
                // a message may be received before its send() returned (send completes later): compare content only
                let ok2 = recvd.iter().enumerate().all(|(i, r)| match sent.get(i) {
                    Some(s) => r == s,
                    None => i == sent.len() && [payload(1, 100), payload(2, 70), payload(3, 40)].contains(r),
                });
                if !(ok || ok2) {
                    out.viol("C06:received-not-prefix", format!("{name}: received {} messages that are not a prefix of what was sent", recvd.len()), replay.clone());
                }
            }
        }
        frames = net.put_counts();
        wire_violations_to(&mut out, &net, "C06", &replay);
        wire_stats_to(&mut out, &net);
        drop((ta, tb));
    });
    uninstall_h1();
    for p in crate::mem::panics_since(&prefix, panics0) {
        let mut rp = replay.clone();
        rp["panic"] = json!({"thread": p.thread, "message": p.message, "location": p.location});
        out.viol("C06:panic", format!("panic at {}: {}", p.location, p.message), rp);
    }
    if fired {
        if let Some(f) = case.fault {
            let mut h = Fnv::new();
            h.add_str(&format!("{:?}{}{}{}{:?}{}{}", f.kind, f.at, f.dir.name(), case.drop_visible, case.delivery, case.h1, case.orderly_end));
            out.case_hash = Some(h.get());
            out.count("faults_fired", 1);
        }
    } else if case.fault.is_some() {
        out.count("faults_not_reached", 1);
    }
    CaseResult { frames, fault_fired: fired, out }
}

/// The enumeration: returns the list of cases for one (schedule, h1, orderly) setting given the clean frame counts.
pub fn enumerate(frames: (usize, usize), delivery: Delivery, h1: u64, orderly_end: bool) -> Vec<Case> {
    let mut v = Vec::new();
    for dir in [Dir::AB, Dir::BA] {
        let n = if dir == Dir::AB { frames.0 } else { frames.1 };
        for at in 0..=(n + 1) {
            for kind in ALL_FAULTS {
                for drop_visible in [true, false] {
                    v.push(Case { fault: Some(Fault { dir, at, kind }), drop_visible, delivery, h1, sym: false, orderly_end });
                }
            }
        }
    }
    v
}

/// Idle test: a healthy connection that is idle for 1000 x timeout must stay up.
pub fn idle_test(seed: u64, sym: bool, buffered: bool) -> RunOut {
    let mut rng = Rng::new(seed);
    let (cfg_a, cfg_b) = cfgs(sym);
    let mut out = RunOut::default();
    let replay = json!({"seed": seed, "idle_test": true, "symmetric_timeouts": sym, "buffered_transport": buffered});
    install_h1(rng.fork(1), 0, 0);
    let res: Result<(), String> = run_virtual(seed, async {
        let Conn { net, a, mut b, sched: _s } = connect_pair(cfg_a, cfg_b, NetCfg { frame_budget: usize::MAX, keep_trace: false, flush_required: buffered, ..Default::default() }, &mut rng).await?;
        let ((mut tx, _rx), (_tx2, mut rx2)) = open_port(&a.client, &mut b.listener).await?;
        tokio::time::sleep(Duration::from_secs(1000 * T_B)).await;
        settle().await;
        if a.run.is_finished() || b.run.is_finished() {
            out.viol("C06:idle-connection-torn-down", format!("a healthy idle connection terminated within {} virtual seconds", 1000 * T_B), replay.clone());
        }
        let ok = crate::clock::or_quiescent(async {
            tx.send(Bytes::from_static(b"still alive")).await.is_ok() && matches!(rx2.recv().await, Ok(Some(_)))
        })
        .await;
        if ok != Some(true) {
            out.viol("C06:idle-connection-torn-down", "after the idle period a message no longer passes".to_string(), replay.clone());
        }
        let pings = net.with_mon(|m| m.stats.pings).unwrap_or(0);
        out.count("idle_pings_observed", pings);
        out.count("idle_tests", 1);
        Ok(())
    });
    uninstall_h1();
    if let Err(e) = res {
        out.inconclusive = Some(e);
    }
    let mut h = Fnv::new();
    h.add_u64(seed);
    h.add_u64(sym as u64);
    out.case_hash = Some(h.get());
    out
}
