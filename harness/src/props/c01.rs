//! C01 Port delivery: exactly-once, in-order, byte-exact, cancel-atomic messages.
//! Also produces the traffic on which C02's wire invariants are evaluated (see c02.rs).

use bytes::Bytes;
use remoc::chmux::{self, PortReq, Received, RecvChunkError};
use serde_json::{Value, json};
use std::sync::{Arc, Mutex};

use super::common::*;
use crate::{
    clock::{run_virtual, settle},
    evidence::RunOut,
    rng::{Fnv, Rng, payload},
    sched::{CancelAt, install_h1, uninstall_h1},
};

#[derive(Clone, Debug)]
pub enum ChunkEnd {
    Finish,
    Final(usize),
    Drop,
}

#[derive(Clone, Debug)]
pub enum SOp {
    Send(usize),
    TrySend(usize),
    Chunks(Vec<usize>, ChunkEnd),
    CancelSend(usize, u32),
    /// chunk lengths, index of the chunk whose send is cancelled, poll budget
    CancelChunks(Vec<usize>, usize, u32),
    Ports(usize),
    /// yield a few times (changes interleaving with other tasks)
    Yield(u32),
}

impl SOp {
    fn shape(&self) -> String {
        match self {
            SOp::Send(n) => format!("S{n}"),
            SOp::TrySend(n) => format!("T{n}"),
            SOp::Chunks(v, e) => format!("C{v:?}{e:?}"),
            SOp::CancelSend(n, p) => format!("XS{n}@{p}"),
            SOp::CancelChunks(v, i, p) => format!("XC{v:?}#{i}@{p}"),
            SOp::Ports(k) => format!("P{k}"),
            SOp::Yield(k) => format!("Y{k}"),
        }
    }
}

#[derive(Clone, Debug, PartialEq, Eq)]
pub enum Ev {
    Data(Vec<u8>),
    Ports(usize),
    Oversize,
}

fn ev_short(e: &Ev) -> String {
    match e {
        Ev::Data(d) => format!("D{}:{}", d.len(), crate::simnet::hex(d, 6)),
        Ev::Ports(k) => format!("P{k}"),
        Ev::Oversize => "OVERSIZE".into(),
    }
}

#[derive(Clone, Copy, Debug, PartialEq, Eq)]
pub enum RMode {
    /// recv_any + recv_chunk; after a Cancelled go back to recv_any
    AnyChunkBackToAny,
    /// recv_any + recv_chunk; after a Cancelled keep calling recv_chunk
    AnyChunkContinue,
    /// recv(): oversize messages produce an error in their place
    Recv,
    /// ReceiverStream
    Stream,
}

#[derive(Default, Debug)]
pub struct SendLog {
    pub completed: Vec<Ev>,
    pub cancelled: u32,
    pub cancelled_oversize: u32,
    pub try_full: u32,
    pub errors: Vec<String>,
    pub done: bool,
}

#[derive(Default, Debug)]
pub struct RecvLog {
    pub received: Vec<Ev>,
    pub cancelled_seen: u32,
    pub errors: Vec<String>,
    pub eos: bool,
}

pub fn len_pool(peer: &remoc::chmux::Cfg) -> Vec<usize> {
    let c = peer.chunk_size as usize;
    let b = peer.receive_buffer as usize;
    let m = peer.max_data_size;
    let cap = (c * 150).max(64).min(6000);
    let mut v = vec![0, 1, 2, c - 1, c, c + 1, 2 * c, 3 * c + 1, b.saturating_sub(1), b, b + 1, 2 * b + 3, m, m + 1, 3 * m];
    for x in v.iter_mut() {
        *x = (*x).min(cap);
    }
    v
}

pub fn gen_script(rng: &mut Rng, peer: &remoc::chmux::Cfg, n_ops: usize, allow_ports: bool, cancel_pct: u64) -> Vec<SOp> {
    let pool = len_pool(peer);
    let mut v = Vec::new();
    for _ in 0..n_ops {
        let r = rng.below(100);
        let len = *rng.pick(&pool);
        let op = if r < cancel_pct / 2 {
            SOp::CancelSend(len, rng.below(6) as u32)
        } else if r < cancel_pct {
            let k = 1 + rng.usize_below(3);
            let lens: Vec<usize> = (0..k).map(|_| *rng.pick(&pool) / 2).collect();
            let i = rng.usize_below(k);
            SOp::CancelChunks(lens, i, rng.below(5) as u32)
        } else if r < cancel_pct + 30 {
            SOp::Send(len)
        } else if r < cancel_pct + 40 {
            SOp::TrySend(len.min(peer.receive_buffer as usize * 2))
        } else if r < cancel_pct + 65 {
            let k = 1 + rng.usize_below(4);
            let lens: Vec<usize> = (0..k).map(|_| *rng.pick(&pool) / 2).collect();
            let end = match rng.below(4) {
                0 => ChunkEnd::Drop,
                1 => ChunkEnd::Final(*rng.pick(&pool) / 2),
                _ => ChunkEnd::Finish,
            };
            SOp::Chunks(lens, end)
        } else if r < cancel_pct + 70 && allow_ports {
            SOp::Ports(1 + rng.usize_below(2))
        } else if r < cancel_pct + 78 {
            SOp::Yield(1 + rng.below(5) as u32)
        } else {
            SOp::Send(len)
        };
        v.push(op);
    }
    v
}

pub async fn sender_task(mut tx: chmux::Sender, script: Vec<SOp>, id_base: u64, max_data_peer: usize, log: Arc<Mutex<SendLog>>) {
    let mut id = id_base;
    let mut next_payload = |len: usize| {
        id += 1;
        payload(id, len)
    };
    for op in script {
        crate::simnet::bump_progress();
        match op {
            SOp::Yield(k) => {
                for _ in 0..k {
                    tokio::task::yield_now().await;
                }
            }
            SOp::Send(len) => {
                let p = next_payload(len);
                match tx.send(Bytes::from(p.clone())).await {
                    Ok(()) => log.lock().unwrap().completed.push(Ev::Data(p)),
                    Err(e) => log.lock().unwrap().errors.push(format!("send({len}): {e}")),
                }
            }
            SOp::TrySend(len) => {
                let p = next_payload(len);
                match tx.try_send(&Bytes::from(p.clone())) {
                    Ok(()) => log.lock().unwrap().completed.push(Ev::Data(p)),
                    Err(chmux::TrySendError::Full) => {
                        // some chunks of the message may already be queued: an aborted message
                        let mut g = log.lock().unwrap();
                        g.try_full += 1;
                        if len > max_data_peer {
                            g.cancelled_oversize += 1;
                        }
                    }
                    Err(e) => log.lock().unwrap().errors.push(format!("try_send({len}): {e}")),
                }
            }
            SOp::Chunks(lens, end) => {
                let mut all = Vec::new();
                let mut cso = Some(tx.send_chunks());
                let mut failed = false;
                for l in &lens {
                    let p = next_payload(*l);
                    all.extend_from_slice(&p);
                    match cso.take().unwrap().send(Bytes::from(p)).await {
                        Ok(c) => cso = Some(c),
                        Err(e) => {
                            log.lock().unwrap().errors.push(format!("chunk send({l}): {e}"));
                            failed = true;
                            break;
                        }
                    }
                }
                if failed {
                    continue;
                }
                let cs = cso.unwrap();
                match end {
                    ChunkEnd::Finish => match cs.finish().await {
                        Ok(()) => log.lock().unwrap().completed.push(Ev::Data(all)),
                        Err(e) => log.lock().unwrap().errors.push(format!("finish: {e}")),
                    },
                    ChunkEnd::Final(l) => {
                        let p = next_payload(l);
                        all.extend_from_slice(&p);
                        match cs.send_final(Bytes::from(p)).await {
                            Ok(()) => log.lock().unwrap().completed.push(Ev::Data(all)),
                            Err(e) => log.lock().unwrap().errors.push(format!("send_final: {e}")),
                        }
                    }
                    ChunkEnd::Drop => {
                        drop(cs);
                        let mut g = log.lock().unwrap();
                        g.cancelled += 1;
                        if all.len() > max_data_peer {
                            g.cancelled_oversize += 1;
                        }
                    }
                }
            }
            SOp::CancelSend(len, n) => {
                let p = next_payload(len);
                let r = CancelAt::new(tx.send(Bytes::from(p.clone())), n).await;
                match r {
                    Some(Ok(())) => log.lock().unwrap().completed.push(Ev::Data(p)),
                    Some(Err(e)) => log.lock().unwrap().errors.push(format!("send({len}) [cancel@{n}]: {e}")),
                    None => {
                        let mut g = log.lock().unwrap();
                        g.cancelled += 1;
                        if len > max_data_peer {
                            g.cancelled_oversize += 1;
                        }
                    }
                }
            }
            SOp::CancelChunks(lens, at, n) => {
                let mut cso = Some(tx.send_chunks());
                let mut total = 0;
                for (i, l) in lens.iter().enumerate() {
                    let p = next_payload(*l);
                    total += p.len();
                    let cs = cso.take().unwrap();
                    if i == at {
                        // cancelling the chunk send consumes the ChunkSender: the message is aborted
                        let _ = CancelAt::new(cs.send(Bytes::from(p)), n).await;
                        break;
                    } else {
                        match cs.send(Bytes::from(p)).await {
                            Ok(c) => cso = Some(c),
                            Err(e) => {
                                log.lock().unwrap().errors.push(format!("chunk send({l}): {e}"));
                                break;
                            }
                        }
                    }
                }
                drop(cso);
                let mut g = log.lock().unwrap();
                g.cancelled += 1;
                if total > max_data_peer {
                    g.cancelled_oversize += 1;
                }
            }
            SOp::Ports(k) => {
                let alloc = tx.port_allocator();
                let mut ports = Vec::new();
                for _ in 0..k {
                    match alloc.try_allocate() {
                        Some(p) => ports.push(PortReq::new(p)),
                        None => break,
                    }
                }
                let k = ports.len();
                if k == 0 {
                    continue;
                }
                match tx.connect(ports, true).await {
                    Ok(connects) => {
                        log.lock().unwrap().completed.push(Ev::Ports(k));
                        // the receiver rejects them; we do not wait for the outcome here
                        drop(connects);
                    }
                    Err(e) => log.lock().unwrap().errors.push(format!("connect({k}): {e}")),
                }
            }
        }
    }
    log.lock().unwrap().done = true;
    drop(tx);
}

pub async fn receiver_task(mut rx: chmux::Receiver, mode: RMode, log: Arc<Mutex<RecvLog>>) {
    match mode {
        RMode::Stream => {
            use futures::StreamExt;
            let mut s = chmux::ReceiverStream::new(rx);
            while let Some(item) = s.next().await {
                crate::simnet::bump_progress();
                match item {
                    Ok(d) => log.lock().unwrap().received.push(Ev::Data(Vec::from(d))),
                    Err(chmux::RecvError::ExceedsMaxDataSize(_)) => log.lock().unwrap().received.push(Ev::Oversize),
                    Err(e) => {
                        log.lock().unwrap().errors.push(format!("stream: {e}"));
                        return;
                    }
                }
            }
            log.lock().unwrap().eos = true;
        }
        RMode::Recv => loop {
            let r = rx.recv().await;
            crate::simnet::bump_progress();
            match r {
                Ok(Some(d)) => log.lock().unwrap().received.push(Ev::Data(Vec::from(d))),
                Ok(None) => {
                    log.lock().unwrap().eos = true;
                    return;
                }
                Err(chmux::RecvError::ExceedsMaxDataSize(_)) => log.lock().unwrap().received.push(Ev::Oversize),
                Err(e) => {
                    log.lock().unwrap().errors.push(format!("recv: {e}"));
                    return;
                }
            }
        },
        RMode::AnyChunkBackToAny | RMode::AnyChunkContinue => {
            'outer: loop {
                let r = rx.recv_any().await;
                crate::simnet::bump_progress();
                match r {
                    Ok(Some(Received::Data(d))) => log.lock().unwrap().received.push(Ev::Data(Vec::from(d))),
                    Ok(Some(Received::Requests(reqs))) => {
                        log.lock().unwrap().received.push(Ev::Ports(reqs.len()));
                        drop(reqs);
                    }
                    Ok(Some(Received::Chunks)) => {
                        let mut buf: Vec<u8> = Vec::new();
                        let mut got_chunk = false;
                        loop {
                            let c = rx.recv_chunk().await;
                            crate::simnet::bump_progress();
                            match c {
                                Ok(Some(b)) => {
                                    got_chunk = true;
                                    buf.extend_from_slice(&b);
                                }
                                Ok(None) => {
                                    if got_chunk {
                                        log.lock().unwrap().received.push(Ev::Data(std::mem::take(&mut buf)));
                                    }
                                    continue 'outer;
                                }
                                Err(RecvChunkError::Cancelled) => {
                                    log.lock().unwrap().cancelled_seen += 1;
                                    buf.clear();
                                    got_chunk = false;
                                    if mode == RMode::AnyChunkBackToAny {
                                        continue 'outer;
                                    }
                                }
                                Err(e) => {
                                    log.lock().unwrap().errors.push(format!("recv_chunk: {e}"));
                                    return;
                                }
                            }
                        }
                    }
                    Ok(None) => {
                        log.lock().unwrap().eos = true;
                        return;
                    }
                    Err(e) => {
                        log.lock().unwrap().errors.push(format!("recv_any: {e}"));
                        return;
                    }
                }
            }
        }
    }
}

/// Compares what was received with what was completed. `complete`: the receiver saw end-of-stream after
/// the sender finished its script, so equality (not just the prefix property) is required.
pub fn compare(sent: &[Ev], recv: &[Ev], mode: RMode, max_data: usize, complete: bool, cancelled_oversize: u32) -> Result<(), String> {
    let chunk_mode = matches!(mode, RMode::AnyChunkBackToAny | RMode::AnyChunkContinue);
    let mut ri = 0;
    let mut oversize_expected_min = 0u32;
    let mut oversize_seen = 0u32;
    for (si, s) in sent.iter().enumerate() {
        // skip unmatched oversize markers in recv modes
        while !chunk_mode && ri < recv.len() && recv[ri] == Ev::Oversize {
            oversize_seen += 1;
            ri += 1;
        }
        match s {
            Ev::Data(d) => {
                if !chunk_mode && d.len() > max_data {
                    // must show up as an Oversize marker (already skipped above or upcoming)
                    oversize_expected_min += 1;
                    continue;
                }
                if ri >= recv.len() {
                    if complete {
                        return Err(format!("completed send #{si} ({}) never received; receiver got {} events then end-of-stream", ev_short(s), recv.len()));
                    }
                    return Ok(());
                }
                if &recv[ri] != s {
                    return Err(format!(
                        "position {ri}: received {} but the next completed send (#{si}) is {}",
                        ev_short(&recv[ri]),
                        ev_short(s)
                    ));
                }
                ri += 1;
            }
            Ev::Ports(k) => {
                if ri < recv.len() && recv[ri] == Ev::Ports(*k) {
                    ri += 1;
                }
                // otherwise: swallowed by recv()/recv_chunk() as documented
            }
            Ev::Oversize => unreachable!(),
        }
    }
    while !chunk_mode && ri < recv.len() && recv[ri] == Ev::Oversize {
        oversize_seen += 1;
        ri += 1;
    }
    if ri < recv.len() {
        return Err(format!("receiver obtained {} which no completed send accounts for (extra event at {ri})", ev_short(&recv[ri])));
    }
    if !chunk_mode && complete {
        if oversize_seen < oversize_expected_min {
            return Err(format!("{oversize_expected_min} oversize messages completed but only {oversize_seen} size errors reported"));
        }
        if oversize_seen > oversize_expected_min + cancelled_oversize {
            return Err(format!(
                "{oversize_seen} size errors reported but only {oversize_expected_min} oversize messages completed (+{cancelled_oversize} cancelled)"
            ));
        }
    }
    Ok(())
}

pub struct Opts {
    pub prop: &'static str,
    pub cancel_pct: u64,
    pub allow_ports: bool,
    pub max_ops: usize,
    /// Stall random directions of the transport for random periods while the scripts run.
    pub stalls: bool,
    /// Report a sender task that is still pending at quiescence (all receivers consume) as a violation.
    pub pending_violation: bool,
}

pub fn run_one(run: u64, seed: u64, opts: &Opts) -> RunOut {
    let mut rng = Rng::new(seed);
    let cfg_a = small_cfg(&mut rng, None);
    let cfg_b = small_cfg(&mut rng, None);
    let netcfg = draw_netcfg(&mut rng);
    let h1 = *rng.pick(&[0u64, 0, 5, 20, 50]);
    let victim = *rng.pick(&[0u64, 0, 3]);
    let n_ports = 1 + rng.usize_below(3);
    let mut scripts = Vec::new();
    for _ in 0..n_ports {
        let n_ab = 1 + rng.usize_below(opts.max_ops);
        let n_ba = rng.usize_below(opts.max_ops / 2 + 1);
        let s_ab = gen_script(&mut rng, &cfg_b, n_ab, opts.allow_ports, opts.cancel_pct);
        let s_ba = gen_script(&mut rng, &cfg_a, n_ba, opts.allow_ports, opts.cancel_pct);
        let m_b = *rng.pick(&[RMode::AnyChunkBackToAny, RMode::AnyChunkBackToAny, RMode::AnyChunkContinue, RMode::Recv, RMode::Stream]);
        let m_a = *rng.pick(&[RMode::AnyChunkBackToAny, RMode::AnyChunkContinue, RMode::Recv, RMode::Stream]);
        scripts.push((s_ab, s_ba, m_b, m_a));
    }
    let replay = json!({
        "run": run, "seed": seed, "cfg_a": cfg_json(&cfg_a), "cfg_b": cfg_json(&cfg_b), "net": netcfg_class(&netcfg),
        "h1_pct": h1, "h1_victim_mod": victim,
        "ports": scripts.iter().map(|(ab, ba, mb, ma)| json!({
            "a_to_b": ab.iter().map(|o| o.shape()).collect::<Vec<_>>(), "b_recv_mode": format!("{mb:?}"),
            "b_to_a": ba.iter().map(|o| o.shape()).collect::<Vec<_>>(), "a_recv_mode": format!("{ma:?}"),
        })).collect::<Vec<_>>(),
    });

    let mut out = RunOut::default();
    let panics0 = crate::mem::panic_count();
    let prefix = crate::clock::thread_prefix();
    install_h1(rng.fork(1), h1, victim);
    let res: Result<(), String> = run_virtual(seed, async {
        let conn = connect_pair(cfg_a.clone(), cfg_b.clone(), netcfg.clone(), &mut rng).await?;
        let Conn { net, a, mut b, sched: _sched } = conn;
        let mut logs = Vec::new();
        let mut tasks = Vec::new();
        for (i, (s_ab, s_ba, m_b, m_a)) in scripts.iter().enumerate() {
            let ((tx_a, rx_a), (tx_b, rx_b)) = open_port(&a.client, &mut b.listener).await?;
            let sl_ab = Arc::new(Mutex::new(SendLog::default()));
            let sl_ba = Arc::new(Mutex::new(SendLog::default()));
            let rl_b = Arc::new(Mutex::new(RecvLog::default()));
            let rl_a = Arc::new(Mutex::new(RecvLog::default()));
            let base = (i as u64) << 32;
            let st1 = crate::sched::spawn(sender_task(tx_a, s_ab.clone(), base | (1 << 24), cfg_b.max_data_size, sl_ab.clone()));
            let st2 = crate::sched::spawn(sender_task(tx_b, s_ba.clone(), base | (2 << 24), cfg_a.max_data_size, sl_ba.clone()));
            let rt1 = crate::sched::spawn(receiver_task(rx_b, *m_b, rl_b.clone()));
            let rt2 = crate::sched::spawn(receiver_task(rx_a, *m_a, rl_a.clone()));
            logs.push((sl_ab, rl_b, *m_b, cfg_b.max_data_size, format!("port{i} A>B")));
            logs.push((sl_ba, rl_a, *m_a, cfg_a.max_data_size, format!("port{i} B>A")));
            tasks.push((st1, rt1));
            tasks.push((st2, rt2));
        }
        if opts.stalls {
            let mut srng = rng.fork(5);
            for _ in 0..(1 + srng.below(4)) {
                let d = if srng.chance(50) { crate::simnet::Dir::AB } else { crate::simnet::Dir::BA };
                net.set_starved(d, true);
                for _ in 0..srng.below(40) {
                    tokio::task::yield_now().await;
                }
                if srng.chance(50) {
                    settle().await;
                }
                net.set_starved(d, false);
                for _ in 0..srng.below(10) {
                    tokio::task::yield_now().await;
                }
            }
            out.count("stall_phases", 1);
        }
        settle().await;

        let mut any_cancel = false;
        for (k, (sl, rl, mode, max_data, name)) in logs.iter().enumerate() {
            let s = sl.lock().unwrap();
            let r = rl.lock().unwrap();
            let (st, rt) = &tasks[k];
            out.count("completed_sends", s.completed.len() as u64);
            out.count("received_events", r.received.len() as u64);
            out.count("cancelled_sends", u64::from(s.cancelled));
            out.count("recv_chunk_cancelled_seen", u64::from(r.cancelled_seen));
            out.count("try_send_full", u64::from(s.try_full));
            any_cancel |= s.cancelled > 0;
            let complete = st.is_finished() && s.done && r.eos;
            if !st.is_finished() {
                out.count("sender_pending_at_quiescence", 1);
                if opts.pending_violation {
                    let mut rp = replay.clone();
                    rp["where"] = json!(name);
                    rp["completed_sends"] = json!(s.completed.len());
                    rp["received_events"] = json!(r.received.len());
                    rp["trace_tail"] = net.trace_json(40);
                    out.viol(
                        format!("{}:pending-at-quiescence", opts.prop),
                        format!("{name}: a send is still pending at quiescence of a healthy, drained transport although the receiver consumed everything delivered ({} completed, {} received, {} cancelled, {} try_send Full)", s.completed.len(), r.received.len(), s.cancelled, s.try_full),
                        rp,
                    );
                }
            }
            if st.is_finished() && !rt.is_finished() {
                let mut rp = replay.clone();
                rp["where"] = json!(name);
                rp["sent"] = json!(s.completed.iter().map(ev_short).collect::<Vec<_>>());
                rp["received"] = json!(r.received.iter().map(ev_short).collect::<Vec<_>>());
                rp["trace_tail"] = net.trace_json(40);
                out.viol(
                    format!("{}:receiver-pending-after-sender-done", opts.prop),
                    format!("{name}: sender finished and dropped, receiver still pending at quiescence after {} of {} events", r.received.len(), s.completed.len()),
                    rp,
                );
                continue;
            }
            for e in s.errors.iter().chain(r.errors.iter()) {
                let mut rp = replay.clone();
                rp["where"] = json!(name);
                rp["trace_tail"] = net.trace_json(40);
                out.viol(format!("{}:error-on-healthy-connection", opts.prop), format!("{name}: {e}"), rp);
            }
            if let Err(why) = compare(&s.completed, &r.received, *mode, *max_data, complete, s.cancelled_oversize) {
                let mut rp = replay.clone();
                rp["where"] = json!(name);
                rp["sent"] = json!(s.completed.iter().map(ev_short).collect::<Vec<_>>());
                rp["received"] = json!(r.received.iter().map(ev_short).collect::<Vec<_>>());
                rp["recv_mode"] = json!(format!("{mode:?}"));
                rp["trace_tail"] = net.trace_json(60);
                out.viol(format!("{}:delivery-mismatch", opts.prop), format!("{name} [{mode:?}]: {why}"), rp);
            }
        }
        wire_violations_to(&mut out, &net, opts.prop, &replay);
        let zp = net.with_mon(|m| m.stats.zero_port_frames).unwrap_or(0);
        if zp > 0 && opts.pending_violation {
            let mut rp = replay.clone();
            rp["trace_tail"] = net.trace_json(30);
            out.viol(format!("{}:zero-progress-frames", opts.prop), format!("{zp} PortData frames without any port were emitted (no API call asks for one)"), rp);
        }
        wire_stats_to(&mut out, &net);

        // non-triviality and distinctness
        let st = net.with_mon(|m| m.stats.clone()).unwrap();
        let multi = st.multi_chunk_msgs > 0;
        let exhausted = st.max_w3_ratio_permille >= 1000;
        if multi && (any_cancel || n_ports >= 2 || exhausted) {
            let mut h = Fnv::new();
            h.add_str(&cfg_class(&cfg_a));
            h.add_str(&cfg_class(&cfg_b));
            for (ab, ba, mb, ma) in &scripts {
                for o in ab.iter().chain(ba.iter()) {
                    h.add_str(&o.shape());
                }
                h.add_str(&format!("{mb:?}{ma:?}"));
            }
            h.add_u64(net.signature());
            out.case_hash = Some(h.get());
        }
        out.item("net_signature", format!("{:016x}", net.signature()));
        out.item("cfg_pair_class", format!("{}|{}", cfg_class(&cfg_a), cfg_class(&cfg_b)));
        if run < 3 {
            out.sample = Some(replay.clone());
        }
        drop(a);
        drop(b);
        Ok(())
    });
    uninstall_h1();
    if let Err(e) = res {
        out.inconclusive = Some(format!("setup failed: {e}"));
    }
    for p in crate::mem::panics_since(&prefix, panics0) {
        let mut rp = replay.clone();
        rp["panic"] = json!({"thread": p.thread, "message": p.message, "location": p.location});
        out.viol(format!("{}:panic", opts.prop), format!("panic at {}: {}", p.location, p.message), rp);
    }
    out
}

pub fn sample_value(v: &Value) -> Value {
    v.clone()
}
