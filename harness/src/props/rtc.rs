//! C12 (remote calls run at most once, answer their own caller, mutate atomically) and
//! C19 (abandoned or failing calls are cancelled and never wedge the server).

use remoc::rtc::{self, CallError, Client as _, ServerRefMut as _, ServerSharedMut as _};
use serde::{Deserialize, Serialize};
use serde_json::json;
use std::{
    sync::{
        Arc, Mutex,
        atomic::{AtomicU64, Ordering},
    },
    time::Duration,
};

use super::{common::*, rig::*};
use crate::{
    clock::{or_quiescent, run_virtual, settle},
    evidence::RunOut,
    rng::{Fnv, Rng},
    sched::{CancelAt, install_h1, uninstall_h1},
};

#[derive(Clone, Debug, PartialEq, Eq)]
pub enum LogEv {
    Started(u64),
    Checkpoint(u64, u32),
    Finished(u64),
}

type Log = Arc<Mutex<Vec<LogEv>>>;

#[rtc::remote(clone)]
pub trait Acct {
    /// reads the value
    async fn get(&self, call_id: u64) -> Result<(u64, u64), CallError>;
    /// read - suspend `steps` times - write (not atomic by itself): returns the new value
    async fn add(&mut self, call_id: u64, delta: u64, steps: u32) -> Result<(u64, u64), CallError>;
    /// like add but runs to completion even if the caller goes away
    #[no_cancel]
    async fn add_nc(&mut self, call_id: u64, delta: u64, steps: u32) -> Result<(u64, u64), CallError>;
    /// only suspends
    async fn slow(&self, call_id: u64, steps: u32) -> Result<u64, CallError>;
    /// reply of `size` bytes
    async fn blob(&self, call_id: u64, size: u32) -> Result<Vec<u8>, CallError>;
    /// takes a large argument
    async fn sink(&self, call_id: u64, data: Vec<u8>) -> Result<u64, CallError>;
    /// a method with a default body that the served object overrides; echoes all of its arguments
    async fn page(&self, call_id: u64, limit: usize, size: u32) -> Result<(u64, usize, u32), CallError> {
        let _ = (call_id, limit, size);
        Ok((0, 0, 0))
    }
}

/// A newer version of the trait: one more method that the server does not know.
#[rtc::remote(clone)]
pub trait AcctV2 {
    async fn get(&self, call_id: u64) -> Result<(u64, u64), CallError>;
    async fn add(&mut self, call_id: u64, delta: u64, steps: u32) -> Result<(u64, u64), CallError>;
    #[no_cancel]
    async fn add_nc(&mut self, call_id: u64, delta: u64, steps: u32) -> Result<(u64, u64), CallError>;
    async fn slow(&self, call_id: u64, steps: u32) -> Result<u64, CallError>;
    async fn blob(&self, call_id: u64, size: u32) -> Result<Vec<u8>, CallError>;
    async fn sink(&self, call_id: u64, data: Vec<u8>) -> Result<u64, CallError>;
    async fn extra(&self, call_id: u64) -> Result<u64, CallError>;
}

pub struct AcctObj {
    pub value: u64,
    pub log: Log,
}

async fn suspend(log: &Log, id: u64, steps: u32) {
    for s in 0..steps {
        tokio::time::sleep(Duration::from_millis(1)).await;
        log.lock().unwrap().push(LogEv::Checkpoint(id, s));
        crate::simnet::bump_progress();
    }
}

impl Acct for AcctObj {
    async fn get(&self, call_id: u64) -> Result<(u64, u64), CallError> {
        self.log.lock().unwrap().push(LogEv::Started(call_id));
        let v = self.value;
        self.log.lock().unwrap().push(LogEv::Finished(call_id));
        Ok((v, call_id))
    }
    async fn add(&mut self, call_id: u64, delta: u64, steps: u32) -> Result<(u64, u64), CallError> {
        self.log.lock().unwrap().push(LogEv::Started(call_id));
        let v = self.value;
        suspend(&self.log, call_id, steps).await;
        self.value = v + delta;
        self.log.lock().unwrap().push(LogEv::Finished(call_id));
        Ok((v + delta, call_id))
    }
    async fn add_nc(&mut self, call_id: u64, delta: u64, steps: u32) -> Result<(u64, u64), CallError> {
        self.log.lock().unwrap().push(LogEv::Started(call_id));
        let v = self.value;
        suspend(&self.log, call_id, steps).await;
        self.value = v + delta;
        self.log.lock().unwrap().push(LogEv::Finished(call_id));
        Ok((v + delta, call_id))
    }
    async fn slow(&self, call_id: u64, steps: u32) -> Result<u64, CallError> {
        self.log.lock().unwrap().push(LogEv::Started(call_id));
        suspend(&self.log, call_id, steps).await;
        self.log.lock().unwrap().push(LogEv::Finished(call_id));
        Ok(call_id)
    }
    async fn blob(&self, call_id: u64, size: u32) -> Result<Vec<u8>, CallError> {
        self.log.lock().unwrap().push(LogEv::Started(call_id));
        self.log.lock().unwrap().push(LogEv::Finished(call_id));
        Ok(vec![7u8; size as usize])
    }
    async fn sink(&self, call_id: u64, data: Vec<u8>) -> Result<u64, CallError> {
        self.log.lock().unwrap().push(LogEv::Started(call_id));
        self.log.lock().unwrap().push(LogEv::Finished(call_id));
        Ok(call_id + data.len() as u64)
    }
    async fn page(&self, call_id: u64, limit: usize, size: u32) -> Result<(u64, usize, u32), CallError> {
        self.log.lock().unwrap().push(LogEv::Started(call_id));
        self.log.lock().unwrap().push(LogEv::Finished(call_id));
        Ok((call_id, limit, size))
    }
}

#[derive(Serialize, Deserialize, Debug)]
pub enum RShip {
    Client(AcctClient),
    Nothing,
}

#[derive(Serialize, Deserialize, Debug)]
pub enum RShipV2 {
    Client(AcctV2Client),
    Nothing,
}

#[derive(Clone, Copy, Debug, PartialEq, Eq)]
pub enum Flavour {
    RefMut,
    SharedMut { spawn: bool },
}

/// One completed (or failed / cancelled) call as seen by its caller.
#[derive(Clone, Debug)]
pub struct CallRec {
    pub id: u64,
    pub client: usize,
    pub kind: &'static str,
    /// bit contributed by an add
    pub delta: u64,
    pub call: u64,
    pub ret: Option<u64>,
    /// Ok(value returned) / Err(text)
    pub result: Option<Result<u64, String>>,
    pub echo: Option<u64>,
    pub cancelled: bool,
    /// checkpoints the callee had logged for this call when the caller dropped the call future
    pub ck_at_drop: Option<usize>,
}

fn tick(c: &AtomicU64) -> u64 {
    c.fetch_add(1, Ordering::SeqCst) + 1
}

/// Linearizability of the recorded history for a counter whose adds contribute unique bits.
pub fn check_linearizable(calls: &[CallRec], final_value: u64) -> Vec<(String, String)> {
    let mut bad = Vec::new();
    let completed: Vec<&CallRec> = calls.iter().filter(|c| matches!(c.result, Some(Ok(_)))).collect();
    let all_bits: u64 = calls.iter().filter(|c| c.kind != "get").fold(0, |a, c| a | c.delta);
    // every returned value is a set of add-bits
    for c in &completed {
        let v = *c.result.as_ref().unwrap().as_ref().unwrap();
        if v & !all_bits != 0 {
            bad.push(("C12:value-from-nowhere".into(), format!("call {} ({}) returned {v:#x}, which contains bits no add contributed", c.id, c.kind)));
        }
        if c.kind != "get" && v & c.delta == 0 {
            bad.push(("C12:own-update-missing".into(), format!("add {} returned {v:#x} without its own contribution {:#x}", c.id, c.delta)));
        }
    }
    // the sets form a chain (a sequential order of the mutations exists)
    let mut sets: Vec<(u64, &CallRec)> = completed.iter().map(|c| (*c.result.as_ref().unwrap().as_ref().unwrap(), *c)).collect();
    sets.sort_by_key(|s| s.0.count_ones());
    for w in sets.windows(2) {
        if w[0].0 & !w[1].0 != 0 {
            bad.push((
                "C12:not-linearizable".into(),
                format!("results {:#x} (call {}) and {:#x} (call {}) are not ordered by inclusion: no sequential order of the mutations explains both (lost update / interleaved &mut methods)", w[0].0, w[0].1.id, w[1].0, w[1].1.id),
            ));
            break;
        }
    }
    // two different adds cannot return the same set
    for (i, a) in completed.iter().enumerate() {
        for b in completed.iter().skip(i + 1) {
            if a.kind != "get" && b.kind != "get" && a.result == b.result {
                bad.push(("C12:not-linearizable".into(), format!("adds {} and {} both returned {:?}", a.id, b.id, a.result)));
            }
        }
    }
    // real-time order
    for x in &completed {
        for y in &completed {
            if x.id == y.id {
                continue;
            }
            let (vx, vy) = (*x.result.as_ref().unwrap().as_ref().unwrap(), *y.result.as_ref().unwrap().as_ref().unwrap());
            if x.ret.unwrap() < y.call {
                // x completed before y started: y sees everything x saw (and x's own update)
                if vx & !vy != 0 {
                    bad.push(("C12:real-time-order-violated".into(), format!("call {} completed (t={}) before call {} started (t={}) but {:#x} is not contained in {:#x}", x.id, x.ret.unwrap(), y.id, y.call, vx, vy)));
                }
            }
            if x.kind != "get" && vy & x.delta != 0 && x.call > y.ret.unwrap() {
                bad.push(("C12:effect-before-call".into(), format!("call {} (finished t={}) observed the update of add {} which was only called at t={}", y.id, y.ret.unwrap(), x.id, x.call)));
            }
        }
    }
    // the final value: every add that returned Ok is in it; nothing else but adds that may have executed
    for c in &completed {
        if c.kind != "get" && final_value & c.delta == 0 {
            bad.push(("C12:acknowledged-update-lost".into(), format!("add {} returned Ok but its contribution {:#x} is missing from the final value {final_value:#x}", c.id, c.delta)));
        }
    }
    bad.truncate(4);
    bad
}

#[derive(Clone, Debug)]
pub enum COp {
    Get,
    Add { steps: u32, nc: bool },
    /// cancel the call future after n polls
    CancelAdd { steps: u32, nc: bool, polls: u32 },
    CancelSlow { steps: u32, polls: u32 },
    Slow { steps: u32 },
    /// a call of the method that has a default body in the trait (overridden by the served object), with
    /// arguments that must come back unchanged
    Page { limit: usize, size: u32 },
    /// a call that is started and polled a few times, then left alone (alive, unpolled) while the same task makes
    /// and completes another call through a clone of its client; afterwards the first call is awaited
    Overlap { steps: u32, polls: u32 },
    /// a call whose reply is `size` bytes (many chunks, blocked on flow control with small receive buffers)
    Blob { size: u32 },
    /// the same, abandoned by the caller after n polls: typically while the reply is being transmitted
    CancelBlob { size: u32, polls: u32 },
    Pause(u64),
}

async fn client_task(cid: usize, mut client: AcctClient, script: Vec<(u64, COp)>, clock: Arc<AtomicU64>, calls: Arc<Mutex<Vec<CallRec>>>, log: Log) {
    let ck_now = |id: u64| log.lock().unwrap().iter().filter(|e| matches!(e, LogEv::Checkpoint(i, _) if *i == id)).count();
    for (id, op) in script {
        crate::simnet::bump_progress();
        let bit = 1u64 << (id % 64);
        let push = |kind: &'static str, delta: u64| {
            let mut g = calls.lock().unwrap();
            g.push(CallRec { id, client: cid, kind, delta, call: tick(&clock), ret: None, result: None, echo: None, cancelled: false, ck_at_drop: None });
            g.len() - 1
        };
        let finish = |idx: usize, r: Result<(u64, u64), CallError>| {
            let mut g = calls.lock().unwrap();
            g[idx].ret = Some(tick(&clock));
            match r {
                Ok((v, echo)) => {
                    g[idx].result = Some(Ok(v));
                    g[idx].echo = Some(echo);
                }
                Err(e) => g[idx].result = Some(Err(e.to_string())),
            }
        };
        match op {
            COp::Pause(ms) => tokio::time::sleep(Duration::from_millis(ms)).await,
            COp::Get => {
                let idx = push("get", 0);
                let r = client.get(id).await;
                finish(idx, r);
            }
            COp::Add { steps, nc } => {
                let idx = push(if nc { "add_nc" } else { "add" }, bit);
                let r = if nc { client.add_nc(id, bit, steps).await } else { client.add(id, bit, steps).await };
                finish(idx, r);
            }
            COp::CancelAdd { steps, nc, polls } => {
                let idx = push(if nc { "add_nc" } else { "add" }, bit);
                let r = if nc { CancelAt::new(client.add_nc(id, bit, steps), polls).await } else { CancelAt::new(client.add(id, bit, steps), polls).await };
                match r {
                    Some(r) => finish(idx, r),
                    None => {
                        let ck = ck_now(id);
                        let mut g = calls.lock().unwrap();
                        g[idx].cancelled = true;
                        g[idx].ck_at_drop = Some(ck);
                        g[idx].ret = Some(tick(&clock));
                    }
                }
            }
            COp::Slow { steps } => {
                let idx = push("slow", 0);
                let r = client.slow(id, steps).await;
                let mut g = calls.lock().unwrap();
                g[idx].ret = Some(tick(&clock));
                match r {
                    Ok(e) => {
                        g[idx].echo = Some(e);
                        g[idx].result = None;
                    }
                    Err(e) => g[idx].result = Some(Err(e.to_string())),
                }
            }
            COp::CancelSlow { steps, polls } => {
                let idx = push("slow", 0);
                let r = CancelAt::new(client.slow(id, steps), polls).await;
                let ck = ck_now(id);
                let mut g = calls.lock().unwrap();
                g[idx].ret = Some(tick(&clock));
                match r {
                    Some(Ok(e)) => g[idx].echo = Some(e),
                    Some(Err(e)) => g[idx].result = Some(Err(e.to_string())),
                    None => {
                        g[idx].cancelled = true;
                        g[idx].ck_at_drop = Some(ck);
                    }
                }
            }
            COp::Overlap { steps, polls } => {
                let idx = push("slow", 0);
                let inner = client.clone();
                let first = client.slow(id, steps);
                tokio::pin!(first);
                // Poll the first call until its request has reached the callee (a call future that is left alone
                // while it still waits for a slot in the request queue would block the nested call by itself:
                // the queue is fair), plus `polls` more polls; then leave it alone.
                let mut early = None;
                let mut started = false;
                for _ in 0..300 {
                    early = crate::sched::PollSome { fut: first.as_mut(), left: 1 }.await;
                    started = log.lock().unwrap().contains(&LogEv::Started(id));
                    if early.is_some() || started {
                        break;
                    }
                    tokio::task::yield_now().await;
                }
                if early.is_none() && started && polls > 0 {
                    early = crate::sched::PollSome { fut: first.as_mut(), left: polls }.await;
                }
                if early.is_none() && !started {
                    // never got that far: no overlap in this run
                    early = Some(first.as_mut().await);
                }
                // the nested call (a read) while the first one is alive but not polled
                let idx2 = {
                    let mut g = calls.lock().unwrap();
                    g.push(CallRec { id: id + 500_000, client: cid, kind: "get", delta: 0, call: tick(&clock), ret: None, result: None, echo: None, cancelled: false, ck_at_drop: None });
                    g.len() - 1
                };
                let r2 = inner.get(id + 500_000).await;
                finish(idx2, r2);
                let r = match early {
                    Some(r) => r,
                    None => first.await,
                };
                let mut g = calls.lock().unwrap();
                g[idx].ret = Some(tick(&clock));
                match r {
                    Ok(e) => g[idx].echo = Some(e),
                    Err(e) => g[idx].result = Some(Err(e.to_string())),
                }
            }
            COp::Page { limit, size } => {
                let idx = push("page", 0);
                let r = client.page(id, limit, size).await;
                let mut g = calls.lock().unwrap();
                g[idx].ret = Some(tick(&clock));
                match r {
                    Ok((e, l, s)) if l == limit && s == size && e == id => g[idx].echo = Some(e),
                    Ok((e, l, s)) => g[idx].result = Some(Err(format!("WRONG-ARGS page({id}, {limit}, {size}) answered ({e}, {l}, {s})"))),
                    Err(e) => g[idx].result = Some(Err(e.to_string())),
                }
            }
            COp::Blob { size } => {
                let idx = push("blob", 0);
                let r = client.blob(id, size).await;
                let mut g = calls.lock().unwrap();
                g[idx].ret = Some(tick(&clock));
                match r {
                    Ok(v) if v.len() == size as usize && v.iter().all(|b| *b == 7) => g[idx].echo = Some(id),
                    Ok(v) => g[idx].result = Some(Err(format!("WRONG-BLOB len={} expected {size}", v.len()))),
                    Err(e) => g[idx].result = Some(Err(e.to_string())),
                }
            }
            COp::CancelBlob { size, polls } => {
                let idx = push("blob", 0);
                let r = CancelAt::new(client.blob(id, size), polls).await;
                let mut g = calls.lock().unwrap();
                g[idx].ret = Some(tick(&clock));
                match r {
                    Some(Ok(v)) if v.len() == size as usize && v.iter().all(|b| *b == 7) => g[idx].echo = Some(id),
                    Some(Ok(v)) => g[idx].result = Some(Err(format!("WRONG-BLOB len={} expected {size}", v.len()))),
                    Some(Err(e)) => g[idx].result = Some(Err(e.to_string())),
                    None => g[idx].cancelled = true,
                }
            }
        }
    }
}

fn gen_script(rng: &mut Rng, next_id: &mut u64, n: usize, cancel_pct: u64) -> Vec<(u64, COp)> {
    (0..n)
        .map(|_| {
            *next_id += 1;
            let id = *next_id;
            let op = match rng.below(100) {
                x if x < cancel_pct / 4 => COp::CancelBlob { size: *rng.pick(&[300u32, 3_000, 20_000, 60_000]), polls: rng.below(40) as u32 },
                x if x < cancel_pct / 2 => COp::CancelAdd { steps: rng.below(4) as u32, nc: rng.chance(50), polls: rng.below(8) as u32 },
                x if x < cancel_pct => COp::CancelSlow { steps: 1 + rng.below(4) as u32, polls: rng.below(8) as u32 },
                x if x < cancel_pct + 30 => COp::Get,
                x if x < cancel_pct + 70 => COp::Add { steps: rng.below(4) as u32, nc: rng.chance(30) },
                x if x < cancel_pct + 78 => COp::Slow { steps: rng.below(3) as u32 },
                x if x < cancel_pct + 80 => COp::Page { limit: rng.usize_below(1000), size: rng.below(1000) as u32 },
                x if x < cancel_pct + 82 => COp::Overlap { steps: rng.below(3) as u32, polls: rng.below(6) as u32 },
                x if x < cancel_pct + 86 => COp::Blob { size: *rng.pick(&[300u32, 3_000, 20_000]) },
                _ => COp::Pause(rng.below(4)),
            };
            (id, op)
        })
        .collect()
}

pub struct RunPlan {
    pub flavour: Flavour,
    pub n_local: usize,
    pub n_remote: usize,
    pub scripts: Vec<Vec<(u64, COp)>>,
}

/// Shared body for C12 (cancel_pct = 0 or small) and C19 (cancellations, failing calls).
pub fn run_one(prop: &'static str, run: u64, seed: u64) -> RunOut {
    let c19 = prop == "C19";
    let mut rng = Rng::new(seed);
    let cfg_a = rch_cfg(&mut rng);
    let cfg_b = rch_cfg(&mut rng);
    let netcfg = draw_netcfg(&mut rng);
    let h1 = *rng.pick(&[0u64, 0, 20, 50]);
    let flavour = *rng.pick(&[Flavour::RefMut, Flavour::SharedMut { spawn: false }, Flavour::SharedMut { spawn: true }]);
    let n_local = rng.usize_below(3);
    let n_remote = if n_local == 0 { 1 + rng.usize_below(3) } else { rng.usize_below(3) };
    let mut next_id = 0u64;
    let cancel_pct = if c19 { 40 } else { *rng.pick(&[0u64, 10, 20]) };
    let scripts: Vec<Vec<(u64, COp)>> = (0..n_local + n_remote)
        .map(|_| {
            let n = 1 + rng.usize_below(6);
            gen_script(&mut rng, &mut next_id, n, cancel_pct)
        })
        .collect();
    // C19: failing calls injected by a dedicated client
    let fail_kinds: Vec<&'static str> = if c19 { (0..rng.below(3)).map(|_| *rng.pick(&["unknown-method", "unknown-method", "oversize-reply"])).collect() } else { vec![] };
    // C19: a client on a connection of its own that is cut while large replies are on their way
    // (0, 1 or 2 such clients; with two, the connections are lost one after the other)
    let n_doomed = if c19 { *rng.pick(&[0usize, 0, 0, 1, 1, 2]) } else { 0 };
    let doomed: Vec<(crate::simnet::FaultKind, bool, usize, Vec<u32>)> = (0..n_doomed)
        .map(|i| {
            (
                *rng.pick(&[crate::simnet::FaultKind::SinkError, crate::simnet::FaultKind::StreamError, crate::simnet::FaultKind::Eof]),
                rng.chance(70),
                1 + rng.usize_below(60) + 80 * i,
                (0..1 + rng.below(3)).map(|_| *rng.pick(&[3_000u32, 20_000, 60_000])).collect(),
            )
        })
        .collect();
    let replay = json!({"run": run, "seed": seed, "doomed_connection": format!("{doomed:?}"), "flavour": format!("{flavour:?}"), "cfg_a": cfg_json(&cfg_a), "cfg_b": cfg_json(&cfg_b), "net": netcfg_class(&netcfg),
        "h1_pct": h1, "local_clients": n_local, "remote_clients": n_remote, "failing_calls": fail_kinds,
        "scripts": scripts.iter().map(|s| s.iter().map(|(i, o)| format!("#{i} {o:?}")).collect::<Vec<_>>()).collect::<Vec<_>>()});
    let mut out = RunOut::default();
    let panics0 = crate::mem::panic_count();
    let prefix = crate::clock::thread_prefix();
    install_h1(rng.fork(1), h1, 0);
    let calls: Arc<Mutex<Vec<CallRec>>> = Arc::new(Mutex::new(Vec::new()));
    let log: Log = Arc::new(Mutex::new(Vec::new()));
    let res: Result<(), String> = run_virtual(seed, async {
        let clock = Arc::new(AtomicU64::new(0));
        let serve_result: Arc<Mutex<Option<String>>> = Arc::new(Mutex::new(None));
        let shared = Arc::new(tokio::sync::RwLock::new(AcctObj { value: 0, log: log.clone() }));
        let client: AcctClient = match flavour {
            Flavour::RefMut => {
                let sr = serve_result.clone();
                let shared2 = shared.clone();
                let (ctx, crx) = tokio::sync::oneshot::channel();
                crate::sched::spawn(async move {
                    let mut guard = shared2.write().await;
                    let (server, client) = AcctServerRefMut::<_, remoc::codec::Default>::new(&mut *guard, 1);
                    let _ = ctx.send(client);
                    let r = server.serve().await;
                    *sr.lock().unwrap() = Some(format!("{r:?}"));
                    crate::simnet::bump_progress();
                });
                crx.await.map_err(|_| "server did not start".to_string())?
            }
            Flavour::SharedMut { spawn } => {
                let (server, client) = AcctServerSharedMut::<_, remoc::codec::Default>::new(shared.clone(), 2);
                let sr = serve_result.clone();
                crate::sched::spawn(async move {
                    let r = server.serve(spawn).await;
                    *sr.lock().unwrap() = Some(format!("{r:?}"));
                    crate::simnet::bump_progress();
                });
                client
            }
        };
        let mut tasks = Vec::new();
        let mut keep: Vec<Box<dyn std::any::Any + Send>> = Vec::new();
        let mut net0 = None;
        for i in 0..n_local {
            tasks.push(crate::sched::spawn(client_task(i, client.clone(), scripts[i].clone(), clock.clone(), calls.clone(), log.clone())));
        }
        let mut fail_task = None;
        if n_remote > 0 || !fail_kinds.is_empty() {
            // endpoint B receives clients; the trait version there is the newer one for the failing-call client
            let (net, a, b, sched) = connect_rch_hetero::<RShip, (), (), RShip>(cfg_a.clone(), cfg_b.clone(), netcfg.clone(), &mut rng).await?;
            let RchEnd { mut tx, rx: rxa, conn: ca } = a;
            let RchEnd { tx: txb, mut rx, conn: cb } = b;
            for i in 0..n_remote {
                let (sr, rr) = tokio::join!(tx.send(RShip::Client(client.clone())), rx.recv());
                sr.map_err(|e| format!("shipping a client: {e}"))?;
                let Ok(Some(RShip::Client(c))) = rr else { return Err("client did not arrive".into()) };
                tasks.push(crate::sched::spawn(client_task(n_local + i, c, scripts[n_local + i].clone(), clock.clone(), calls.clone(), log.clone())));
            }
            net0 = Some(net);
            keep.push(Box::new((tx, rxa, ca, txb, rx, cb, sched)));
        }
        if !fail_kinds.is_empty() {
            // a second connection whose receiving side understands the client as the newer trait version
            let (net2, a2, b2, sched2) = connect_rch_hetero::<RShip, (), (), RShipV2>(rch_cfg(&mut rng), rch_cfg(&mut rng), draw_netcfg(&mut rng), &mut rng).await?;
            let RchEnd { tx: mut tx2, rx: rxa2, conn: ca2 } = a2;
            let RchEnd { tx: txb2, rx: mut rx2, conn: cb2 } = b2;
            let mut c1 = client.clone();
            if fail_kinds.contains(&"oversize-reply") {
                // the reply limit travels with the client
                c1.set_max_reply_size(2_000);
            }
            let (sr, rr) = tokio::join!(tx2.send(RShip::Client(c1)), rx2.recv());
            sr.map_err(|e| format!("shipping the v2 client: {e}"))?;
            let Ok(Some(RShipV2::Client(v2))) = rr else { return Err("v2 client did not arrive".into()) };
            keep.push(Box::new((net2, tx2, rxa2, ca2, txb2, rx2, cb2, sched2)));
            let kinds = fail_kinds.clone();
            let results: Arc<Mutex<Vec<(String, String)>>> = Arc::new(Mutex::new(Vec::new()));
            let res2 = results.clone();
            let mut frng = rng.fork(77);
            fail_task = Some((results, crate::sched::spawn(async move {
                for (k, kind) in kinds.iter().enumerate() {
                    for _ in 0..frng.below(3) {
                        tokio::time::sleep(Duration::from_millis(1)).await;
                    }
                    let id = 900_000 + k as u64;
                    let r = match *kind {
                        "unknown-method" => v2.extra(id).await.map(|_| ()).map_err(|e| e.to_string()),
                        "oversize-reply" => v2.blob(id, 50_000).await.map(|_| ()).map_err(|e| e.to_string()),
                        _ => v2.sink(id, vec![1u8; 60_000]).await.map(|_| ()).map_err(|e| e.to_string()),
                    };
                    res2.lock().unwrap().push((kind.to_string(), format!("{r:?}")));
                    crate::simnet::bump_progress();
                    // the same client must still be served afterwards
                    let r = v2.get(id + 1000).await;
                    res2.lock().unwrap().push((format!("get-after-{kind}"), format!("{:?}", r.map(|x| x.1).map_err(|e| e.to_string()))));
                }
            })));
        }
        let mut doomed_tasks = Vec::new();
        for (kind, reply_dir, after, sizes) in doomed.clone() {
            let (net3, a3, b3, sched3) = connect_rch_hetero::<RShip, (), (), RShip>(rch_cfg(&mut rng), rch_cfg(&mut rng), draw_netcfg(&mut rng), &mut rng).await?;
            let RchEnd { tx: mut tx3, rx: rxa3, conn: ca3 } = a3;
            let RchEnd { tx: txb3, rx: mut rx3, conn: cb3 } = b3;
            let (sr, rr) = tokio::join!(tx3.send(RShip::Client(client.clone())), rx3.recv());
            sr.map_err(|e| format!("shipping the doomed client: {e}"))?;
            let Ok(Some(RShip::Client(dc))) = rr else { return Err("doomed client did not arrive".into()) };
            // the cut comes `after` frames from now in the direction of the replies (or of the requests)
            let dir = if reply_dir { crate::simnet::Dir::AB } else { crate::simnet::Dir::BA };
            let (pa, pb) = net3.put_counts();
            net3.set_fault(crate::simnet::Fault { dir, at: if reply_dir { pa } else { pb } + after, kind });
            let results: Arc<Mutex<Vec<String>>> = Arc::new(Mutex::new(Vec::new()));
            let res3 = results.clone();
            let net3b = net3.clone();
            keep.push(Box::new((tx3, rxa3, ca3, txb3, rx3, cb3, sched3)));
            doomed_tasks.push((results, net3, crate::sched::spawn(async move {
                for (k, size) in sizes.iter().enumerate() {
                    let r = dc.blob(800_000 + k as u64, *size).await;
                    res3.lock().unwrap().push(format!("blob({size}) fault_fired={}: {}", net3b.fault_fired(), match r { Ok(v) => format!("Ok(len {})", v.len()), Err(e) => format!("Err({e})") }));
                    crate::simnet::bump_progress();
                }
            })));
        }
        for _ in 0..300 {
            settle().await;
            if tasks.iter().all(|t| t.is_finished()) && doomed_tasks.iter().all(|t| t.2.is_finished()) && fail_task.as_ref().map(|t| t.1.is_finished()).unwrap_or(true) {
                break;
            }
            tokio::time::sleep(Duration::from_millis(3)).await;
        }
        settle().await;
        // log snapshot, then more virtual time: abandoned cancellable calls must not advance any further
        let log1 = log.lock().unwrap().clone();
        tokio::time::sleep(Duration::from_millis(30)).await;
        settle().await;
        let log2 = log.lock().unwrap().clone();
        let all_done = tasks.iter().all(|t| t.is_finished());
        // a probe call from a fresh clone: the server still serves (lock released, not wedged)
        let mut probe = client.clone();
        let probe_res = or_quiescent(probe.add(999_999, 1u64 << 63, 0)).await;
        let served_after = matches!(probe_res, Some(Ok(_)));
        let final_value = match or_quiescent(probe.get(999_998)).await {
            Some(Ok((v, _))) => Some(v),
            _ => None,
        };
        let cs = calls.lock().unwrap().clone();
        let mut bad: Vec<(String, String)> = Vec::new();
        let sr = serve_result.lock().unwrap().clone();

        // ---- execution counts, echo ----
        for c in &cs {
            let started = log2.iter().filter(|e| **e == LogEv::Started(c.id)).count();
            let finished = log2.iter().filter(|e| **e == LogEv::Finished(c.id)).count();
            match &c.result {
                Some(Ok(_)) => {
                    if started != 1 || finished != 1 {
                        bad.push((format!("{prop}:execution-count"), format!("call {} ({}) returned the callee's result but the callee started {started} and finished {finished} times", c.id, c.kind)));
                    }
                    if c.echo != Some(c.id) {
                        bad.push((format!("{prop}:answer-of-another-call"), format!("call {} received the reply of call {:?}", c.id, c.echo)));
                    }
                }
                _ => {
                    if started > 1 {
                        bad.push((format!("{prop}:execution-count"), format!("call {} ({}) ran {started} times", c.id, c.kind)));
                    }
                    if c.kind == "slow" && c.echo.is_some() && c.echo != Some(c.id) {
                        bad.push((format!("{prop}:answer-of-another-call"), format!("call {} received the reply of call {:?}", c.id, c.echo)));
                    }
                }
            }
            if c.kind == "page" && c.result.is_none() && c.echo == Some(c.id) && (started != 1 || finished != 1) {
                bad.push((format!("{prop}:execution-count"), format!("call {} (page) returned the callee's result but the callee started {started} and finished {finished} times", c.id)));
            }
            if let Some(Err(e)) = &c.result {
                if e.contains("WRONG-ARGS") {
                    bad.push((format!("{prop}:answer-of-another-call"), format!("call {} received an answer computed from other arguments than the ones passed: {e}", c.id)));
                }
                if e.contains("WRONG-BLOB") {
                    bad.push((format!("{prop}:answer-of-another-call"), format!("call {} (blob) received {e}", c.id)));
                }
            }
            if c.ret.is_none() && all_done {
                bad.push((format!("{prop}:call-without-outcome"), format!("call {} ({}) has no outcome", c.id, c.kind)));
            }
        }
        if !all_done {
            let pending: Vec<String> = cs.iter().filter(|c| c.ret.is_none()).map(|c| format!("#{} {}", c.id, c.kind)).collect();
            bad.push((format!("{prop}:call-pending-at-quiescence"), format!("calls {pending:?} are still pending at quiescence (server wedged / lock not released?); serve() result so far: {sr:?}")));
        }
        // ---- linearizability (C12) ----
        if let Some(fv) = final_value {
            // an add that was cancelled or failed may or may not have taken effect: only completed ones are obligations
            let mut l = check_linearizable(&cs, fv);
            if !c19 {
                bad.append(&mut l);
            } else if let Some(x) = l.into_iter().find(|x| x.0 != "C12:real-time-order-violated") {
                bad.push((x.0.replace("C12", "C19"), x.1));
            }
            // torn mutation: the final value must be explained by adds that started
            let started_bits: u64 = cs.iter().filter(|c| c.kind != "get" && log2.contains(&LogEv::Started(c.id))).fold(1u64 << 63, |a, c| a | c.delta);
            if fv & !started_bits != 0 {
                bad.push((format!("{prop}:value-from-nowhere"), format!("final value {fv:#x} contains contributions of adds that never started")));
            }
            // a non-cancellable add that started must be in the final value, also if its caller went away
            for c in cs.iter().filter(|c| c.kind == "add_nc") {
                if log2.contains(&LogEv::Started(c.id)) && fv & c.delta == 0 {
                    bad.push((format!("{prop}:no-cancel-method-abandoned"), format!("#[no_cancel] add {} started but its update {:#x} is missing from the final value {fv:#x} (cancelled={})", c.id, c.delta, c.cancelled)));
                }
            }
        } else if sr.is_none() || !c19 {
            bad.push((format!("{prop}:server-not-serving"), format!("a fresh call after everything completed gives {probe_res:?}; serve() result: {sr:?}")));
        }
        // ---- cancellation (C19) ----
        if c19 {
            for c in cs.iter().filter(|c| c.cancelled && c.kind != "add_nc") {
                let adv1 = log1.iter().filter(|e| matches!(e, LogEv::Checkpoint(i, _) if *i == c.id)).count();
                let adv2 = log2.iter().filter(|e| matches!(e, LogEv::Checkpoint(i, _) if *i == c.id)).count();
                let fin = log2.contains(&LogEv::Finished(c.id));
                if adv2 > adv1 && !fin {
                    bad.push(("C19:cancelled-call-keeps-running".into(), format!("call {} ({}) was abandoned by its caller but advanced from checkpoint {adv1} to {adv2} after quiescence", c.id, c.kind)));
                }
                // The cancellation travels in zero virtual time (every runnable task runs before the paused clock
                // advances) while each step of the callee takes 1 ms of it: after the drop the callee can pass at
                // most the checkpoint whose sleep was already due.
                if let Some(ck) = c.ck_at_drop {
                    if adv2 > ck + 1 {
                        bad.push(("C19:cancelled-call-keeps-running".into(), format!("call {} ({}) had passed {ck} checkpoints when its caller dropped the call future, and went on to pass {adv2} (finished={fin}): it was not cancelled", c.id, c.kind)));
                    }
                }
            }
            if !served_after {
                bad.push(("C19:server-wedged".into(), format!("after abandoned and failing calls a fresh &mut call gives {probe_res:?}; serve() result: {sr:?}")));
            }
            if let Some((results, t)) = &fail_task {
                if !t.is_finished() {
                    bad.push(("C19:failing-call-pending".into(), format!("the failing-call client is still pending at quiescence: {:?}", results.lock().unwrap())));
                }
                for (k, r) in results.lock().unwrap().iter() {
                    out.item("failing_call_outcomes", format!("{k}: {}", r.chars().take(70).collect::<String>()));
                    if k.starts_with("get-after-") && !r.starts_with("Ok") {
                        let sig = if k.contains("oversize-reply") { "C19:oversize-reply:serve-returns-ReplySend" } else { "C19:failing-call-breaks-later-calls" };
                        bad.push((sig.into(), format!("{k} on the same client gives {r}; serve() result: {sr:?}")));
                    }
                    if !k.starts_with("get-after-") && r.starts_with("Ok") && k != "oversize-request-server-limit" {
                        bad.push(("C19:failing-call-succeeded".into(), format!("{k} returned {r}")));
                    }
                }
            }
            for (results, net3, t) in &doomed_tasks {
                let rs = results.lock().unwrap().clone();
                out.count("cut_connections", net3.fault_fired() as u64);
                for r in &rs {
                    out.item("calls_over_cut_connection", r.split(':').next().unwrap_or("").split(' ').skip(1).collect::<Vec<_>>().join(" ") + if r.contains("Ok(") { " ok" } else { " failed" });
                }
                if !t.is_finished() {
                    bad.push(("C19:call-pending-after-connection-cut".into(), format!("the connection of a client was cut ({:?}) and its call is still pending at quiescence; outcomes so far {rs:?}", doomed.iter().map(|d| d.0).collect::<Vec<_>>())));
                }
            }
            if let Some(s) = &sr {
                let sig = if s.contains("ReplySend") && fail_kinds.contains(&"oversize-reply") { "C19:oversize-reply:serve-returns-ReplySend" } else { "C19:serve-ended" };
                bad.push((sig.into(), format!("serve() ended although clients are alive: {s}")));
            }
        } else if let Some(s) = &sr {
            bad.push((format!("{prop}:serve-ended"), format!("serve() ended although clients are alive: {s}")));
        }
        // known deviation: a reply above the reply size limit ends serve() (tests/rtc/errors.rs asserts it). A run
        // is attributed to it only if serve() ended with exactly that error after such a call was injected; what
        // follows from the server being gone (later calls failing or pending) is then not judged separately.
        let known_dev = c19
            && fail_kinds.contains(&"oversize-reply")
            && sr.as_deref().map(|s| s.contains("ReplySend(Send(MaxItemSizeExceeded))")).unwrap_or(false);
        if known_dev {
            let kept: Vec<(String, String)> = bad
                .iter()
                .filter(|b| ["C19:cancelled-call-keeps-running", "C19:answer-of-another-call", "C19:execution-count", "C19:value-from-nowhere"].contains(&b.0.as_str()))
                .cloned()
                .collect();
            bad = kept;
            bad.push(("C19:oversize-reply:serve-returns-ReplySend".into(), format!("a reply above the client's reply size limit ended serve() with {}; every later call of every client fails", sr.clone().unwrap_or_default())));
        }
        let mut seen = std::collections::BTreeSet::new();
        for (sig, d) in bad.into_iter().filter(|b| seen.insert(b.0.clone())).take(3) {
            let mut rp = replay.clone();
            rp["calls"] = json!(cs.iter().map(|c| format!("#{} c{} {} call={} ret={:?} result={:?} echo={:?} cancelled={}", c.id, c.client, c.kind, c.call, c.ret, c.result, c.echo, c.cancelled)).collect::<Vec<_>>());
            rp["exec_log"] = json!(log2.iter().map(|e| format!("{e:?}")).collect::<Vec<_>>());
            if let Some(n) = &net0 {
                rp["trace_tail"] = n.trace_json(20);
            }
            out.viol(sig, d, rp);
        }
        out.count("calls", cs.len() as u64);
        out.count("calls_completed_ok", cs.iter().filter(|c| matches!(c.result, Some(Ok(_)))).count() as u64);
        out.count("calls_cancelled", cs.iter().filter(|c| c.cancelled).count() as u64);
        out.item("flavours", format!("{flavour:?}"));
        let overlap = cs.iter().enumerate().any(|(i, a)| cs.iter().skip(i + 1).any(|b| a.client != b.client && a.call < b.ret.unwrap_or(u64::MAX) && b.call < a.ret.unwrap_or(u64::MAX)));
        let cancelled_after_start = cs.iter().any(|c| c.cancelled && log2.contains(&LogEv::Started(c.id)));
        if (!c19 && overlap) || (c19 && (cancelled_after_start || !fail_kinds.is_empty())) {
            let mut hh = Fnv::new();
            hh.add_str(&format!("{flavour:?}"));
            for c in &cs {
                hh.add_str(&format!("{}{}{}{:?}{:?}", c.client, c.kind, c.call, c.ret, c.cancelled));
            }
            out.case_hash = Some(hh.get());
        }
        if let Some(n) = &net0 {
            wire_violations_to(&mut out, n, prop, &replay);
        }
        drop(keep);
        Ok(())
    });
    uninstall_h1();
    if let Err(e) = res {
        out.inconclusive = Some(e);
    }
    if run < 3 {
        out.sample = Some(json!({"plan": replay, "calls": calls.lock().unwrap().iter().map(|c| format!("#{} c{} {} call={} ret={:?} result={:?}", c.id, c.client, c.kind, c.call, c.ret, c.result)).collect::<Vec<_>>()}));
    }
    for p in crate::mem::panics_since(&prefix, panics0) {
        out.viol(format!("{prop}:panic"), format!("panic at {}: {}", p.location, p.message), replay.clone());
    }
    out
}
