//! C03 Flow control liveness: dedicated scenarios (the general mixture with cancellations and stalls reuses
//! the C01 workload with `pending_violation`, see mod.rs).
//!  * connect(k ports) with r credits left over in tiny buffers (must complete, no zero-port frames)
//!  * port blocking: port X's receiver never consumes; port Y must still move all its messages both ways
//!  * exhaust-then-cancel: sends cancelled while queued behind a stalled transport, try_send on a full queue,
//!    then drain and probe with fresh sends

use bytes::Bytes;
use remoc::chmux::{self, PortReq, Received};
use serde_json::json;

use super::common::*;
use crate::{
    clock::{run_virtual, settle},
    evidence::RunOut,
    rng::{Fnv, Rng, payload},
    sched::{CancelAt, install_h1, uninstall_h1},
    simnet::Dir,
};

async fn drain(mut rx: chmux::Receiver, accept: bool) -> usize {
    let mut got = 0;
    let mut keep = Vec::new();
    loop {
        match rx.recv_any().await {
            Ok(Some(Received::Chunks)) => loop {
                match rx.recv_chunk().await {
                    Ok(Some(_)) => {}
                    _ => break,
                }
            },
            Ok(Some(Received::Requests(reqs))) => {
                for r in reqs {
                    if accept {
                        if let Ok(p) = r.accept().await {
                            keep.push(p);
                        }
                    }
                }
            }
            Ok(Some(Received::Data(_))) => {}
            _ => break,
        }
        got += 1;
        crate::simnet::bump_progress();
    }
    got
}

pub fn run_one(run: u64, seed: u64) -> RunOut {
    let mut rng = Rng::new(seed);
    let variant = rng.below(4);
    let mut cfg_a = small_cfg(&mut rng, None);
    let mut cfg_b = small_cfg(&mut rng, None);
    if variant == 0 {
        cfg_b.receive_buffer = rng.range(4, 12) as u32;
        cfg_a.max_ports = 64;
        cfg_b.max_ports = 64;
    }
    if variant == 1 || variant == 3 {
        for c in [&mut cfg_a, &mut cfg_b] {
            c.shared_send_queue = 1;
            c.transport_send_queue = 1;
            c.transport_receive_queue = 1;
        }
    }
    let netcfg = draw_netcfg(&mut rng);
    let h1 = *rng.pick(&[0u64, 10, 40]);
    let k_ports = 1 + rng.usize_below(6);
    let pre_len = rng.usize_below(8);
    let n_msgs = 2 + rng.usize_below(10);
    let vname = ["connect-leftover", "port-blocking", "exhaust-cancel", "recv-cancel-under-pressure"][variant as usize];
    let replay = json!({"run": run, "seed": seed, "variant": vname,
        "cfg_a": cfg_json(&cfg_a), "cfg_b": cfg_json(&cfg_b), "net": netcfg_class(&netcfg), "h1_pct": h1,
        "k_ports": k_ports, "pre_len": pre_len, "n_msgs": n_msgs});
    let mut out = RunOut::default();
    let panics0 = crate::mem::panic_count();
    let prefix = crate::clock::thread_prefix();
    install_h1(rng.fork(1), h1, 0);
    let res: Result<(), String> = run_virtual(seed, async {
        let Conn { net, a, mut b, sched: _s } = connect_pair(cfg_a.clone(), cfg_b.clone(), netcfg.clone(), &mut rng).await?;
        let mut pending: Vec<String> = Vec::new();
        match variant {
            0 => {
                let ((mut tx_a, _rx_a), (_tx_b, rx_b)) = open_port(&a.client, &mut b.listener).await?;
                let rtask = crate::sched::spawn(drain(rx_b, rng.chance(50)));
                let stask = crate::sched::spawn(async move {
                    // leave a particular number of credits behind
                    if pre_len > 0 {
                        let _ = tx_a.send(Bytes::from(payload(1, pre_len))).await;
                    }
                    let alloc = tx_a.port_allocator();
                    let mut ports = Vec::new();
                    for _ in 0..k_ports {
                        if let Some(p) = alloc.try_allocate() {
                            ports.push(PortReq::new(p));
                        }
                    }
                    let r = tx_a.connect(ports, true).await;
                    crate::simnet::bump_progress();
                    (r.is_ok(), tx_a)
                });
                settle().await;
                if !stask.is_finished() {
                    pending.push(format!("Sender::connect({k_ports} ports) after a {pre_len}-byte message"));
                }
                drop(rtask);
            }
            1 => {
                // port X: receiver idle. port Y: traffic both ways.
                let ((mut tx_ax, _rx_ax), (_tx_bx, rx_bx)) = open_port(&a.client, &mut b.listener).await?;
                let ((mut tx_ay, rx_ay), (mut tx_by, rx_by)) = open_port(&a.client, &mut b.listener).await?;
                let _idle = rx_bx; // kept alive, never polled
                let big = cfg_b.receive_buffer as usize * 3 + 5;
                let fill = cfg_b.receive_buffer as usize;
                let x_connect = rng.chance(50);
                let xs = crate::sched::spawn(async move {
                    if x_connect {
                        // use up the whole window with data nobody consumes, then ask for ports on that port
                        let _ = tx_ax.send(Bytes::from(payload(7, fill))).await;
                        let alloc = tx_ax.port_allocator();
                        let mut ports = Vec::new();
                        for _ in 0..2 {
                            if let Some(p) = alloc.try_allocate() {
                                ports.push(PortReq::new(p));
                            }
                        }
                        let _ = tx_ax.connect(ports, true).await;
                    } else {
                        let _ = tx_ax.send(Bytes::from(payload(7, big))).await;
                    }
                    tx_ax
                });
                let n = n_msgs;
                let lb = cfg_b.receive_buffer as usize + 3;
                let la = cfg_a.receive_buffer as usize + 3;
                let ys1 = crate::sched::spawn(async move {
                    for i in 0..n {
                        if tx_ay.send(Bytes::from(payload(i as u64, lb))).await.is_err() {
                            return false;
                        }
                    }
                    true
                });
                let ys2 = crate::sched::spawn(async move {
                    for i in 0..n {
                        if tx_by.send(Bytes::from(payload(100 + i as u64, la))).await.is_err() {
                            return false;
                        }
                    }
                    true
                });
                let yr1 = crate::sched::spawn(drain(rx_by, false));
                let yr2 = crate::sched::spawn(drain(rx_ay, false));
                settle().await;
                if !ys1.is_finished() {
                    pending.push("port Y A>B sends (port X's receiver idle)".into());
                }
                if !ys2.is_finished() {
                    pending.push("port Y B>A sends (port X's receiver idle)".into());
                }
                if ys1.is_finished() && !yr1.is_finished() {
                    pending.push("port Y A>B receiver did not reach end-of-stream".into());
                }
                if ys2.is_finished() && !yr2.is_finished() {
                    pending.push("port Y B>A receiver did not reach end-of-stream".into());
                }
                if xs.is_finished() {
                    out.count("port_x_not_blocked", 1);
                } else {
                    out.count("port_x_blocked_as_intended", 1);
                }
                drop(xs);
            }
            3 => {
                // Port X carries data A>B; B's receiver consumes it with receive calls that are dropped after a few
                // polls, while B's own event queue is full (port Z floods B>A behind a starved B>A direction), so
                // that B's flow-credit returns have to wait for queue space exactly when a receive is cancelled.
                let ((mut tx_ax, _rx_ax), (_tx_bx, mut rx_bx)) = open_port(&a.client, &mut b.listener).await?;
                let ((_tx_az, rx_az), (mut tx_bz, _rx_bz)) = open_port(&a.client, &mut b.listener).await?;
                net.set_starved(Dir::BA, true);
                let n_flood = 3 + rng.usize_below(12);
                let flood = crate::sched::spawn(async move {
                    for i in 0..n_flood {
                        if tx_bz.send(Bytes::from(payload(900 + i as u64, 1 + i % 3))).await.is_err() {
                            break;
                        }
                    }
                    tx_bz
                });
                let za = crate::sched::spawn(drain(rx_az, false));
                let n = n_msgs + 2;
                let len = (cfg_b.receive_buffer as usize / 3 + 1).max(1);
                let xs = crate::sched::spawn(async move {
                    for i in 0..n {
                        if tx_ax.send(Bytes::from(payload(i as u64, len))).await.is_err() {
                            return false;
                        }
                    }
                    true
                });
                let mut crng = rng.fork(11);
                let mut cancels_left = 2 + crng.usize_below(10);
                let xr = crate::sched::spawn(async move {
                    let mut got = 0usize;
                    loop {
                        let r = if cancels_left > 0 {
                            match CancelAt::new(rx_bx.recv_any(), 1 + crng.below(5) as u32).await {
                                Some(r) => r,
                                None => {
                                    cancels_left -= 1;
                                    tokio::task::yield_now().await;
                                    continue;
                                }
                            }
                        } else {
                            rx_bx.recv_any().await
                        };
                        match r {
                            Ok(Some(Received::Chunks)) => loop {
                                match rx_bx.recv_chunk().await {
                                    Ok(Some(_)) => {}
                                    _ => break,
                                }
                            },
                            Ok(Some(_)) => {}
                            _ => break,
                        }
                        got += 1;
                        crate::simnet::bump_progress();
                    }
                    got
                });
                settle().await;
                net.set_starved(Dir::BA, false);
                settle().await;
                if !xs.is_finished() {
                    pending.push(format!("port X A>B sends ({n} x {len} bytes; the receiver consumed everything, partly with receive calls dropped after a few polls while its endpoint's event queue was full)"));
                }
                if !flood.is_finished() {
                    pending.push("port Z B>A flood sends".into());
                }
                drop((xr, za));
            }
            _ => {
                // exhaust-then-cancel
                let ((tx_a, _rx_a), (_tx_b, rx_b)) = open_port(&a.client, &mut b.listener).await?;
                let rtask = crate::sched::spawn(drain(rx_b, false));
                net.set_starved(Dir::AB, true);
                let pool = super::c01::len_pool(&cfg_b);
                let mut crng = rng.fork(9);
                let n_cancel = 2 + crng.usize_below(6);
                let txm = std::sync::Arc::new(tokio::sync::Mutex::new(tx_a));
                let txm2 = txm.clone();
                let rb = cfg_b.receive_buffer as usize;
                // The cancel sequence runs as a task: a send that is still queued behind the stalled transport
                // at quiescence is cancelled by aborting the task (dropping the future between polls).
                let ctask = crate::sched::spawn(async move {
                    let mut tx_a = txm2.lock().await;
                    for i in 0..n_cancel {
                        let len = (*crng.pick(&pool)).max(1);
                        if crng.chance(30) {
                            let _ = tx_a.try_send(&Bytes::from(payload(i as u64, len.min(rb))));
                        } else {
                            let _ = CancelAt::new(tx_a.send(Bytes::from(payload(i as u64, len))), crng.below(8) as u32).await;
                        }
                        for _ in 0..crng.below(4) {
                            tokio::task::yield_now().await;
                        }
                    }
                });
                settle().await;
                ctask.abort();
                let _ = ctask.await;
                net.set_starved(Dir::AB, false);
                settle().await;
                let mut tx_a = txm.lock_owned().await;
                // probe: a message as large as the whole window, then a 1-byte message
                let full = cfg_b.receive_buffer as usize;
                let probe = crate::sched::spawn(async move {
                    let r1 = tx_a.send(Bytes::from(payload(500, full))).await.is_ok();
                    let r2 = tx_a.send(Bytes::from(payload(501, 1))).await.is_ok();
                    crate::simnet::bump_progress();
                    (r1, r2)
                });
                settle().await;
                if !probe.is_finished() {
                    pending.push(format!("probe send({full}) + send(1) after {n_cancel} cancelled/try sends behind a stalled transport"));
                }
                drop(rtask);
            }
        }
        for p in &pending {
            let mut rp = replay.clone();
            rp["pending"] = json!(pending);
            rp["trace_tail"] = net.trace_json(40);
            out.viol("C03:pending-at-quiescence", format!("still pending at quiescence of a healthy, drained transport: {p}"), rp);
        }
        let zp = net.with_mon(|m| m.stats.zero_port_frames).unwrap_or(0);
        if zp > 0 {
            let mut rp = replay.clone();
            rp["trace_tail"] = net.trace_json(30);
            out.viol("C03:zero-progress-frames", format!("{zp} PortData frames without any port were emitted"), rp);
        }
        if net.budget_exceeded() {
            out.count("frame_budget_exceeded", 1);
        }
        wire_violations_to(&mut out, &net, "C03", &replay);
        wire_stats_to(&mut out, &net);
        out.count(["connect_leftover_runs", "port_blocking_runs", "exhaust_cancel_runs", "recv_cancel_under_pressure_runs"][variant as usize], 1);
        let mut h = Fnv::new();
        h.add_str(&cfg_class(&cfg_a));
        h.add_str(&cfg_class(&cfg_b));
        h.add_u64(variant);
        h.add_u64(k_ports as u64);
        h.add_u64(pre_len as u64);
        h.add_u64(n_msgs as u64);
        h.add_u64(net.signature());
        out.case_hash = Some(h.get());
        if run < 3 {
            out.sample = Some(replay.clone());
        }
        Ok(())
    });
    uninstall_h1();
    if let Err(e) = res {
        out.inconclusive = Some(format!("setup failed: {e}"));
    }
    for p in crate::mem::panics_since(&prefix, panics0) {
        let mut rp = replay.clone();
        rp["panic"] = json!({"thread": p.thread, "message": p.message, "location": p.location});
        out.viol("C03:panic", format!("panic at {}: {}", p.location, p.message), rp);
    }
    out
}
