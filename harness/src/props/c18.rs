//! C18: I/O channels (rch::io) deliver exactly the written bytes; EOF is successful only at the agreed total
//! size; over-long writes are refused; short, unfinished or interrupted streams are errors, never truncations.

use remoc::rch::io;
use serde::{Deserialize, Serialize};
use serde_json::json;
use std::{
    sync::{Arc, Mutex},
    time::Duration,
};
use tokio::io::{AsyncReadExt, AsyncWriteExt};

use super::{common::*, rig::*};
use crate::{
    clock::{or_quiescent, run_virtual, settle},
    evidence::RunOut,
    rng::{Fnv, Rng, payload},
    sched::{CancelAt, install_h1, uninstall_h1},
    simnet::{Dir, Fault, FaultKind},
};

#[derive(Serialize, Deserialize)]
pub enum IoShip {
    Tx(io::Sender),
    Rx(io::Receiver),
}

#[derive(Clone, Copy, Debug, PartialEq, Eq)]
pub enum Place {
    /// both halves stay where they were created
    Local,
    /// the sender travels to the other endpoint
    TxMoved,
    /// the receiver travels to the other endpoint
    RxMoved,
    /// the sender travels over one connection, the receiver over another one (the creator forwards)
    BothMoved,
    /// the receiver travels first; the sender starts writing where it was created and, after a flush in the
    /// middle of the stream, travels over a second connection and goes on writing there
    TxMovedMidStream,
}

#[derive(Clone, Debug)]
pub enum WOp {
    Write(usize),
    /// a write future dropped after n polls: accepts nothing unless it completed
    CancelWrite(usize, u32),
    Flush,
    Pause(u64),
    /// flush, then send the sender over the spare connection and continue there (at most once)
    Move,
}

#[derive(Clone, Copy, Debug, PartialEq, Eq)]
pub enum WEnd {
    Shutdown,
    /// flush, then drop without shutdown
    FlushDrop,
    /// drop without flush or shutdown
    Drop,
}

#[derive(Clone, Debug, Default)]
pub struct WriterOut {
    /// bytes accepted by write calls (sum of Ok(n))
    pub accepted: usize,
    /// bytes accepted and followed by a successful flush or shutdown
    pub flushed: usize,
    pub write_err: Option<String>,
    pub refused_overlong: u64,
    pub overlong_accepted: Option<String>,
    pub shutdown: Option<Result<(), String>>,
    pub done: bool,
    pub bytes_written_api: u64,
    pub zero_len_write_nonzero: bool,
    pub cancelled_writes: u64,
    pub moved_at: Option<usize>,
    pub move_err: Option<String>,
}

#[derive(Clone, Debug, Default)]
pub struct ReaderOut {
    pub got: Vec<u8>,
    pub eof: bool,
    pub err: Option<String>,
    pub done: bool,
    pub empty_reads: u64,
    pub empty_read_bad: bool,
    pub reads: u64,
    pub read_after_eof: Option<String>,
}

/// Sends a half over a base channel and receives it on the other endpoint. A failed send is reported at once
/// (the other endpoint then waits for an item that never comes).
async fn ship_half(tx: &mut remoc::rch::base::Sender<IoShip>, rx: &mut remoc::rch::base::Receiver<IoShip>, v: IoShip) -> Result<IoShip, String> {
    let both = async {
        tokio::try_join!(async { tx.send(v).await.map_err(|e| format!("send error: {e}")) }, async {
            match rx.recv().await {
                Ok(Some(v)) => Ok(v),
                Ok(None) => Err("channel ended".to_string()),
                Err(e) => Err(format!("receive error: {e}")),
            }
        })
    };
    match or_quiescent(both).await {
        Some(Ok(((), v))) => Ok(v),
        Some(Err(e)) => Err(e),
        None => Err("pending at quiescence".into()),
    }
}

type Mover = (remoc::rch::base::Sender<IoShip>, remoc::rch::base::Receiver<IoShip>);

async fn writer(mut tx: io::Sender, data: Vec<u8>, limit: usize, ops: Vec<WOp>, end: WEnd, size: Option<usize>, outp: Arc<Mutex<WriterOut>>, mut mover: Option<Mover>) {
    let mut off = 0usize;
    let mut failed = false;
    // the scripted calls, then plain writes of the rest up to `limit`
    let ops = ops.into_iter().map(Some).chain(std::iter::repeat(None));
    'ops: for op in ops {
        let op = match op {
            Some(op) => op,
            None if off < limit => WOp::Write(limit - off),
            None => break,
        };
        crate::simnet::bump_progress();
        match op {
            WOp::Pause(ms) => tokio::time::sleep(Duration::from_millis(ms)).await,
            WOp::Move => {
                let Some((mut mtx, mut mrx)) = mover.take() else { continue };
                // nothing may be in flight when the sender is serialized
                if let Err(e) = tx.flush().await {
                    outp.lock().unwrap().write_err = Some(format!("flush: {:?} {e}", e.kind()));
                    failed = true;
                    break 'ops;
                }
                {
                    let mut o = outp.lock().unwrap();
                    o.flushed = o.accepted;
                }
                match ship_half(&mut mtx, &mut mrx, IoShip::Tx(tx)).await {
                    Ok(IoShip::Tx(t)) => {
                        tx = t;
                        outp.lock().unwrap().moved_at = Some(off);
                    }
                    Ok(_) => unreachable!(),
                    Err(e) => {
                        let mut o = outp.lock().unwrap();
                        o.move_err = Some(e);
                        // (the sender is gone: nothing to ask)
                        o.bytes_written_api = o.accepted as u64;
                        o.done = true;
                        return;
                    }
                }
            }
            WOp::Flush => match tx.flush().await {
                Ok(()) => {
                    let mut o = outp.lock().unwrap();
                    o.flushed = o.accepted;
                }
                Err(e) => {
                    outp.lock().unwrap().write_err = Some(format!("flush: {:?} {e}", e.kind()));
                    failed = true;
                    break 'ops;
                }
            },
            WOp::Write(n) | WOp::CancelWrite(n, _) => {
                // one write call (may be short); the script goes on with what is left
                let n = n.min(limit - off);
                let buf = &data[off..off + n];
                let r = match op {
                    WOp::CancelWrite(_, polls) => match CancelAt::new(tx.write(buf), polls).await {
                        Some(r) => r,
                        None => {
                            outp.lock().unwrap().cancelled_writes += 1;
                            continue;
                        }
                    },
                    _ => tx.write(buf).await,
                };
                match r {
                    Ok(k) => {
                        let mut o = outp.lock().unwrap();
                        if n == 0 && k != 0 {
                            o.zero_len_write_nonzero = true;
                        }
                        if k > n {
                            o.overlong_accepted = Some(format!("write of {n} bytes returned {k}"));
                        }
                        o.accepted += k;
                        off += k;
                    }
                    Err(e) => {
                        outp.lock().unwrap().write_err = Some(format!("write at {off}: {:?} {e}", e.kind()));
                        failed = true;
                        break 'ops;
                    }
                }
            }
        }
    }
    // sized: everything beyond the size must be refused
    if let Some(size) = size {
        if !failed && off >= size {
            let extra = [0xeeu8; 5];
            match tx.write(&extra).await {
                Ok(k) if k > 0 => outp.lock().unwrap().overlong_accepted = Some(format!("{k} bytes accepted beyond the size of {size}")),
                r => {
                    let mut o = outp.lock().unwrap();
                    o.refused_overlong += 1;
                    // the refusal comes after the pending transmission was completed
                    if matches!(&r, Err(e) if e.kind() == std::io::ErrorKind::WriteZero) || r.is_ok() {
                        o.flushed = o.accepted;
                    }
                }
            }
        }
    }
    outp.lock().unwrap().bytes_written_api = tx.bytes_written();
    match end {
        WEnd::Shutdown => {
            let r = tx.shutdown().await;
            let mut o = outp.lock().unwrap();
            if r.is_ok() {
                o.flushed = o.accepted;
            }
            o.shutdown = Some(r.map_err(|e| format!("{:?} {e}", e.kind())));
        }
        WEnd::FlushDrop => {
            if tx.flush().await.is_ok() {
                let mut o = outp.lock().unwrap();
                o.flushed = o.accepted;
            }
        }
        WEnd::Drop => (),
    }
    drop(tx);
    outp.lock().unwrap().done = true;
    crate::simnet::bump_progress();
}

async fn reader(mut rx: io::Receiver, sizes: Vec<usize>, cancel_pct: u64, mut rng: Rng, outp: Arc<Mutex<ReaderOut>>, late_ms: u64) {
    // a reader that starts late lets the writer run into back-pressure first
    if late_ms > 0 {
        tokio::time::sleep(Duration::from_millis(late_ms)).await;
    }
    let mut i = 0;
    loop {
        crate::simnet::bump_progress();
        let n = sizes[i % sizes.len()];
        i += 1;
        let mut buf = vec![0u8; n];
        let r = if rng.chance(cancel_pct) {
            match CancelAt::new(rx.read(&mut buf), rng.below(4) as u32).await {
                Some(r) => r,
                None => continue,
            }
        } else {
            rx.read(&mut buf).await
        };
        let mut o = outp.lock().unwrap();
        o.reads += 1;
        match r {
            Ok(k) if n == 0 => {
                o.empty_reads += 1;
                if k != 0 {
                    o.empty_read_bad = true;
                }
            }
            Ok(0) => {
                o.eof = true;
                break;
            }
            Ok(k) => o.got.extend_from_slice(&buf[..k]),
            Err(e) => {
                o.err = Some(format!("{:?} {e}", e.kind()));
                break;
            }
        }
    }
    // end of file stays end of file
    if outp.lock().unwrap().eof {
        let mut buf = [0u8; 8];
        match rx.read(&mut buf).await {
            Ok(0) => (),
            other => outp.lock().unwrap().read_after_eof = Some(format!("{other:?}")),
        }
    }
    outp.lock().unwrap().done = true;
    crate::simnet::bump_progress();
}

fn interesting_len(rng: &mut Rng, cfgs: &[&remoc::Cfg]) -> usize {
    let c = *rng.pick(cfgs);
    let (cs, rb) = (c.chunk_size as usize, c.receive_buffer as usize);
    match rng.below(12) {
        0 => 0,
        1 => 1,
        2 => cs - 1,
        3 => cs,
        4 => cs + 1,
        5 => rb.saturating_sub(1),
        6 => rb,
        7 => rb + 1,
        8 => 2 * rb + cs + 3,
        9 => rng.usize_below(200),
        10 => rng.usize_below(3_000),
        _ => rng.usize_below(20_000),
    }
}

pub fn run_one(run: u64, seed: u64) -> RunOut {
    let prop = "C18";
    let mut rng = Rng::new(seed ^ 0x18);
    let mut cfgs: Vec<remoc::Cfg> = (0..4).map(|_| rch_cfg(&mut rng)).collect();
    // The sender transmits pieces of up to chunk_size bytes as messages of their own; an endpoint configured to
    // refuse messages smaller than a chunk (max_data_size < chunk_size) is a configuration mismatch, not a stream.
    // receive buffers far below the chunk size (every write is split by flow control into many segments)
    for c in cfgs.iter_mut() {
        if rng.chance(20) {
            c.receive_buffer = *rng.pick(&[16u32, 20, 33]);
        }
        // the default chunk size with a tiny receive buffer
        if rng.chance(8) {
            c.chunk_size = 16384;
            c.receive_buffer = *rng.pick(&[16u32, 64]);
        }
    }
    let max_chunk = cfgs.iter().map(|c| c.chunk_size as usize).max().unwrap();
    for c in cfgs.iter_mut() {
        c.max_data_size = c.max_data_size.max(max_chunk);
    }
    let (cfg_a, cfg_b, cfg_c, cfg_d) = (cfgs[0].clone(), cfgs[1].clone(), cfgs[2].clone(), cfgs[3].clone());
    // (rch::bin, which carries the bytes, requires at least one half to be remote: no all-local placement)
    let place = *rng.pick(&[Place::TxMoved, Place::TxMoved, Place::RxMoved, Place::RxMoved, Place::BothMoved, Place::TxMovedMidStream]);
    let total = interesting_len(&mut rng, &[&cfg_a, &cfg_b]);
    let sized = rng.chance(50);
    // what the writer is going to do
    let end = *rng.pick(&[WEnd::Shutdown, WEnd::Shutdown, WEnd::Shutdown, WEnd::FlushDrop, WEnd::Drop]);
    // how much of the data the script tries to write (short stream = less than the declared size)
    let planned = match rng.below(5) {
        0 if total > 0 => rng.usize_below(total),
        _ => total,
    };
    let data = payload(seed, total + 8);
    let mut ops = Vec::new();
    let mut left = planned;
    let mut guard = 0;
    while left > 0 && guard < 400 {
        guard += 1;
        let n = match rng.below(8) {
            0 => 0,
            1 => 1,
            2 => cfg_a.chunk_size as usize,
            3 => cfg_a.chunk_size as usize + 1,
            4 => cfg_b.receive_buffer as usize + 1,
            5 => left,
            _ => 1 + rng.usize_below(left.min(4_000)),
        };
        // a write call may be short: reserve nothing, the writer advances by what was accepted
        if rng.chance(8) {
            ops.push(WOp::CancelWrite(n, rng.below(4) as u32));
        } else {
            ops.push(WOp::Write(n));
            left = left.saturating_sub(n.min(cfg_a.chunk_size.min(cfg_b.chunk_size) as usize).max(if n == 0 { 0 } else { 1 }));
        }
        if rng.chance(20) {
            ops.push(WOp::Flush);
        }
        if rng.chance(8) {
            ops.push(WOp::Pause(rng.below(3)));
        }
    }
    if planned == 0 && rng.chance(50) {
        ops.push(WOp::Write(0));
    }
    if place == Place::TxMovedMidStream {
        let at = rng.usize_below(ops.len() + 1);
        ops.insert(at, WOp::Move);
    }
    let read_sizes: Vec<usize> = (0..1 + rng.usize_below(5))
        .map(|_| match rng.below(7) {
            0 => 0,
            1 => 1,
            2 => cfg_b.chunk_size as usize,
            3 => cfg_b.chunk_size as usize + 1,
            4 => cfg_b.receive_buffer as usize + 1,
            _ => 1 + rng.usize_below(5_000),
        })
        .collect();
    let read_sizes = if read_sizes.iter().all(|s| *s == 0) { vec![0, 7] } else { read_sizes };
    let read_cancel = *rng.pick(&[0u64, 0, 10]);
    let reader_late_ms = *rng.pick(&[0u64, 0, 0, 5, 20]);
    let cut: Option<(FaultKind, bool, usize, usize)> =
        (place != Place::Local && rng.chance(25)).then(|| (*rng.pick(&[FaultKind::SinkError, FaultKind::StreamError, FaultKind::Eof]), rng.chance(50), rng.usize_below(60), rng.usize_below(2)));
    let netcfg = draw_netcfg(&mut rng);
    let netcfg2 = draw_netcfg(&mut rng);
    let h1 = *rng.pick(&[0u64, 0, 20, 50]);
    let replay = json!({"run": run, "seed": seed, "place": format!("{place:?}"), "sized": sized, "declared_or_total": total, "planned_bytes": planned, "writer_end": format!("{end:?}"),
        "writer_ops": ops.iter().take(60).map(|o| format!("{o:?}")).collect::<Vec<_>>(), "read_sizes": read_sizes, "read_cancel_pct": read_cancel, "reader_starts_after_ms": reader_late_ms, "connection_cut": format!("{cut:?}"),
        "cfg_a": cfg_json(&cfg_a), "cfg_b": cfg_json(&cfg_b), "net": netcfg_class(&netcfg), "net2": netcfg_class(&netcfg2), "h1_pct": h1});
    let mut out = RunOut::default();
    let panics0 = crate::mem::panic_count();
    let prefix = crate::clock::thread_prefix();
    install_h1(rng.fork(1), h1, 0);
    let wout = Arc::new(Mutex::new(WriterOut::default()));
    let rout = Arc::new(Mutex::new(ReaderOut::default()));
    let res: Result<(), String> = run_virtual(seed, async {
        let (tx, rx) = if sized { io::sized(total as u64) } else { io::channel() };
        let mut keep: Vec<Box<dyn std::any::Any + Send>> = Vec::new();
        let mut nets = Vec::new();
        let (mut tx, mut rx) = (Some(tx), Some(rx));
        if place != Place::Local {
            let (net, a, b, sched) = connect_rch_hetero::<IoShip, (), (), IoShip>(cfg_a.clone(), cfg_b.clone(), netcfg.clone(), &mut rng).await?;
            let RchEnd { tx: mut ctx, rx: rxa, conn: ca } = a;
            let RchEnd { tx: txb, rx: mut crx, conn: cb } = b;
            let ship = if place == Place::RxMoved || place == Place::TxMovedMidStream { IoShip::Rx(rx.take().unwrap()) } else { IoShip::Tx(tx.take().unwrap()) };
            match ship_half(&mut ctx, &mut crx, ship).await {
                Ok(IoShip::Tx(t)) => tx = Some(t),
                Ok(IoShip::Rx(r)) => rx = Some(r),
                Err(e) => {
                    let mut rp = replay.clone();
                    rp["trace_tail_link0"] = net.trace_json(40);
                    out.viol("C18:half-cannot-be-moved", format!("sending a half of a fresh I/O channel to the other endpoint ({place:?}, {}) failed: {e}", if sized { "sized" } else { "unsized" }), rp);
                    return Ok(());
                }
            }
            nets.push(net);
            keep.push(Box::new((ctx, rxa, ca, txb, crx, cb, sched)));
        }
        if place == Place::BothMoved {
            let (net, a, b, sched) = connect_rch_hetero::<IoShip, (), (), IoShip>(cfg_c.clone(), cfg_d.clone(), netcfg2.clone(), &mut rng).await?;
            let RchEnd { tx: mut ctx, rx: rxa, conn: ca } = a;
            let RchEnd { tx: txb, rx: mut crx, conn: cb } = b;
            match ship_half(&mut ctx, &mut crx, IoShip::Rx(rx.take().unwrap())).await {
                Ok(IoShip::Rx(r)) => rx = Some(r),
                Ok(_) => return Err("wrong half arrived".into()),
                Err(e) => {
                    let mut rp = replay.clone();
                    rp["trace_tail_link1"] = net.trace_json(40);
                    out.viol("C18:half-cannot-be-moved", format!("sending the receiver over a second connection after the sender had been sent over the first ({}) failed: {e}", if sized { "sized" } else { "unsized" }), rp);
                    return Ok(());
                }
            }
            nets.push(net);
            keep.push(Box::new((ctx, rxa, ca, txb, crx, cb, sched)));
        }
        let mut mover: Option<Mover> = None;
        if place == Place::TxMovedMidStream {
            let (net, a, b, sched) = connect_rch_hetero::<IoShip, (), (), IoShip>(cfg_c.clone(), cfg_d.clone(), netcfg2.clone(), &mut rng).await?;
            let RchEnd { tx: ctx, rx: rxa, conn: ca } = a;
            let RchEnd { tx: txb, rx: crx, conn: cb } = b;
            mover = Some((ctx, crx));
            nets.push(net);
            keep.push(Box::new((rxa, ca, txb, cb, sched)));
        }
        if let Some((kind, ab, after, which)) = cut {
            let net = &nets[which % nets.len()];
            let (pa, pb) = net.put_counts();
            net.set_fault(Fault { dir: if ab { Dir::AB } else { Dir::BA }, at: if ab { pa } else { pb } + after, kind });
        }
        if std::env::var("HARNESS_DEBUG").is_ok() {
            eprintln!("c18: halves placed; plan {replay}");
        }
        let wt = crate::sched::spawn(writer(tx.take().unwrap(), data.clone(), planned, ops.clone(), end, sized.then_some(total), wout.clone(), mover));
        let rt = crate::sched::spawn(reader(rx.take().unwrap(), read_sizes.clone(), read_cancel, rng.fork(5), rout.clone(), reader_late_ms));
        for _ in 0..400 {
            settle().await;
            if wt.is_finished() && rt.is_finished() {
                break;
            }
            tokio::time::sleep(Duration::from_millis(3)).await;
        }
        settle().await;
        if std::env::var("HARNESS_DEBUG").is_ok() {
            eprintln!("c18: settled w={:?} r.done={}", wout.lock().unwrap(), rout.lock().unwrap().done);
        }
        let w = wout.lock().unwrap().clone();
        let r = rout.lock().unwrap().clone();
        let cut_fired = nets.iter().any(|n| n.fault_fired());
        let mut bad: Vec<(String, String)> = Vec::new();

        // ---- fidelity: what was read is a prefix of what was accepted ----
        if r.got.len() > w.accepted || r.got[..] != data[..r.got.len().min(data.len())] {
            let at = r.got.iter().zip(data.iter()).position(|(a, b)| a != b);
            bad.push(("C18:bytes-differ".into(), format!("the reader obtained {} bytes, the writer's accepted {} bytes; first difference at offset {at:?}", r.got.len(), w.accepted)));
        }
        if let Some(e) = &w.move_err {
            if !cut_fired {
                bad.push(("C18:half-cannot-be-moved".into(), format!("sending the sender on after {} flushed bytes failed: {e}", w.flushed)));
            }
        }
        // ---- sized: nothing beyond the size is accepted ----
        if let Some(x) = &w.overlong_accepted {
            bad.push(("C18:overlong-write-accepted".into(), x.clone()));
        }
        if sized && w.accepted > total {
            bad.push(("C18:overlong-write-accepted".into(), format!("{} bytes accepted by a sender of size {total}", w.accepted)));
        }
        if w.zero_len_write_nonzero {
            bad.push(("C18:bytes-differ".into(), "an empty write reported bytes written".into()));
        }
        if w.done && w.bytes_written_api != w.accepted as u64 {
            bad.push(("C18:bytes-written-miscounted".into(), format!("Sender::bytes_written() = {} but the write calls accepted {}", w.bytes_written_api, w.accepted)));
        }
        // ---- the size agreed: fixed at creation, or announced by a successful shutdown ----
        let shutdown_ok = matches!(w.shutdown, Some(Ok(())));
        if sized && w.shutdown.is_some() && w.write_err.is_none() && !cut_fired {
            if shutdown_ok && w.accepted != total {
                bad.push(("C18:short-stream-shutdown-ok".into(), format!("shutdown of a sender of size {total} after only {} accepted bytes returned Ok", w.accepted)));
            }
        }
        if r.eof {
            let agreed = if sized { Some(total) } else if shutdown_ok { Some(w.accepted) } else { None };
            match agreed {
                Some(a) if r.got.len() == a => (),
                Some(a) => bad.push(("C18:silent-truncation".into(), format!("the reader saw a successful end of file after {} bytes; the stream's size is {a}", r.got.len()))),
                None => bad.push(("C18:silent-truncation".into(), format!("the reader saw a successful end of file after {} bytes although the unsized sender never completed a shutdown ({:?}, end {end:?}, write error {:?})", r.got.len(), w.shutdown, w.write_err))),
            }
        }
        if r.empty_read_bad {
            bad.push(("C18:bytes-differ".into(), "a read into an empty buffer reported bytes".into()));
        }
        if let Some(x) = &r.read_after_eof {
            bad.push(("C18:read-after-eof".into(), format!("a read after a successful end of file gave {x}")));
        }
        // ---- outcomes at quiescence ----
        if !w.done {
            bad.push(("C18:writer-pending-at-quiescence".into(), format!("the writer is pending at quiescence after {} accepted bytes (reader: {} bytes, eof={}, err={:?}; cut fired={cut_fired})", w.accepted, r.got.len(), r.eof, r.err)));
        } else if !r.done {
            bad.push(("C18:reader-pending-at-quiescence".into(), format!("the writer has finished ({} bytes accepted, {} flushed, shutdown {:?}, dropped) but the reader is still pending after {} bytes (cut fired={cut_fired})", w.accepted, w.flushed, w.shutdown, r.got.len())));
        } else if !cut_fired && w.write_err.is_none() {
            // undisturbed stream: the reader's verdict is determined
            // (bytes of the last write call are transmitted by the next call on the sender: `flushed` is a lower bound)
            let complete = if sized { w.flushed == total } else { shutdown_ok };
            let incomplete = if sized { w.accepted < total } else { !shutdown_ok };
            if complete && !r.eof {
                bad.push(("C18:complete-stream-reported-as-error".into(), format!("all {} bytes were written and flushed (shutdown {:?}) but the reader ended with {:?} after {} bytes", w.accepted, w.shutdown, r.err, r.got.len())));
            }
            if incomplete && r.err.is_none() {
                bad.push(("C18:silent-truncation".into(), format!("the stream was left unfinished ({} of {} bytes flushed, end {end:?}, shutdown {:?}) but the reader reported no error (eof={}, {} bytes)", w.flushed, if sized { total } else { w.accepted }, w.shutdown, r.eof, r.got.len())));
            }
            if r.got.len() < w.flushed {
                bad.push(("C18:flushed-bytes-lost".into(), format!("{} bytes were flushed by the writer but the reader ended after {} (err {:?})", w.flushed, r.got.len(), r.err)));
            }
        }
        let mut seen = std::collections::BTreeSet::new();
        for (sig, d) in bad.into_iter().filter(|b| seen.insert(b.0.clone())).take(3) {
            let mut rp = replay.clone();
            rp["writer"] = json!(format!("{:?}", WriterOut { ..w.clone() }));
            rp["reader"] = json!(format!("got={} eof={} err={:?} reads={} done={}", r.got.len(), r.eof, r.err, r.reads, r.done));
            for (i, n) in nets.iter().enumerate() {
                rp[format!("trace_tail_link{i}")] = n.trace_json(40);
            }
            out.viol(sig, d, rp);
        }
        out.count("streams", 1);
        out.count("bytes_accepted", w.accepted as u64);
        out.count("bytes_read", r.got.len() as u64);
        out.count("reads", r.reads);
        out.count("empty_reads", r.empty_reads);
        out.count("cancelled_writes", w.cancelled_writes);
        out.count("overlong_writes_refused", w.refused_overlong);
        out.count("eof_ok", r.eof as u64);
        out.count("reader_errors", r.err.is_some() as u64);
        out.count("connection_cuts_fired", cut_fired as u64);
        out.item("placements", format!("{place:?}/{}", if sized { "sized" } else { "unsized" }));
        if let Some(at) = w.moved_at {
            out.count("senders_moved_mid_stream", 1);
            out.count("senders_moved_after_some_bytes", (at > 0) as u64);
        }
        out.item("writer_endings", format!("{end:?}/{}", if planned < total { "short" } else { "full" }));
        if let Some(e) = &r.err {
            out.item("reader_error_kinds", e.split(' ').next().unwrap_or("").to_string());
        }
        if let Some(e) = &w.write_err {
            out.item("writer_error_kinds", e.split(':').nth(1).unwrap_or("").trim().split(' ').next().unwrap_or("").to_string());
        }
        if let Some(Err(e)) = &w.shutdown {
            out.item("shutdown_error_kinds", e.split(' ').next().unwrap_or("").to_string());
        }
        if w.accepted > 0 || end != WEnd::Shutdown || cut.is_some() {
            let mut hh = Fnv::new();
            hh.add_str(&format!("{place:?}{sized}{total}{planned}{end:?}{cut:?}{}{}{:?}{}", w.accepted, r.got.len(), r.err.is_some(), r.reads));
            out.case_hash = Some(hh.get());
        }
        if cut.is_none() {
            for n in &nets {
                wire_violations_to(&mut out, n, prop, &replay);
            }
        }
        drop(keep);
        Ok(())
    });
    uninstall_h1();
    if let Err(e) = res {
        if std::env::var("HARNESS_DEBUG").is_ok() {
            eprintln!("c18: inconclusive: {e}; plan {replay}");
        }
        out.inconclusive = Some(e);
    }
    if run < 3 {
        let (w, r) = (wout.lock().unwrap().clone(), rout.lock().unwrap().clone());
        out.sample = Some(json!({"plan": replay, "writer": format!("{w:?}"), "reader": format!("got={} eof={} err={:?} reads={}", r.got.len(), r.eof, r.err, r.reads)}));
    }
    for p in crate::mem::panics_since(&prefix, panics0) {
        out.viol(format!("{prop}:panic"), format!("panic at {}: {}", p.location, p.message), replay.clone());
    }
    out
}
