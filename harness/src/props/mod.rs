pub mod c01;
pub mod c02;
pub mod c03;
pub mod c04;
pub mod c05;
pub mod c06;
pub mod c07;
pub mod c08;
pub mod c09;
pub mod c10;
pub mod c11;
pub mod c17;
pub mod c18;
pub mod c20;
pub mod common;
pub mod rig;
pub mod robs;
pub mod rfnp;
pub mod rtc;
pub mod wb;

use crate::evidence::Ctx;

/// Thorough tier only: the valgrind memcheck leg (evidence.rs::memcheck_leg) over the first `runs` runs of each
/// phase; what it observed goes into the evidence file under `memcheck_leg`.
fn memcheck(ctx: &Ctx, agg: &mut crate::evidence::Agg, rep: &mut Report, runs: u64) {
    if ctx.tier.name() != "thorough" && std::env::var("VERIF_LEG").is_err() {
        return;
    }
    let (obs, viols) = crate::evidence::memcheck_leg(ctx, runs);
    agg.viols.extend(viols);
    rep.extra.insert("memcheck_leg".into(), obs);
}

pub fn dispatch(ctx: &Ctx) -> Option<i32> {
    Some(match ctx.id {
        "C01" => c01_check(ctx),
        "C02" => c02_check(ctx),
        "C03" => c03_check(ctx),
        "C04" => c04_check(ctx),
        "C05" => c05_check(ctx),
        "C06" => c06_check(ctx),
        "C11" => c11_check(ctx),
        "C12" => c12_check(ctx),
        "C13" => c13_check(ctx),
        "C19" => c19_check(ctx),
        "C17" => c17_check(ctx),
        "C18" => c18_check(ctx),
        "C20" => c20_check(ctx),
        "C15" => c15_check(ctx),
        "C16" => c16_check(ctx),
        "C14" => c14_check(ctx),
        "C07" => c07_check(ctx),
        "C08" => c08_check(ctx),
        "C09" => c09_check(ctx),
        "C10" => c10_check(ctx),
        _ => return None,
    })
}

pub const IDS: [&str; 20] = [
    "C01", "C02", "C03", "C04", "C05", "C06", "C07", "C08", "C09", "C10", "C11", "C12", "C13", "C14", "C15", "C16", "C17",
    "C18", "C19", "C20",
];

use crate::evidence::{Report, finish, shard_runs};
use std::{collections::BTreeMap, sync::Arc, time::Duration};

fn c01_check(ctx: &Ctx) -> i32 {
    let n = ctx.tier.pick(20_000, 1_500_000);
    let budget = Duration::from_secs(ctx.tier.pick(40, 420));
    let opts = Arc::new(c01::Opts { prop: "C01", cancel_pct: 20, allow_ports: true, max_ops: 8, stalls: false, pending_violation: false });
    let o2 = opts.clone();
    let agg = shard_runs(ctx, "main", n, budget, Duration::from_secs(60), Arc::new(move |run, seed| c01::run_one(run, seed, &o2)));
    let rep = Report {
        level: "exploration",
        rule: "one case = one seeded run (Cfg pair, 1-3 ports, per-direction op scripts over send/try_send/send_chunks/cancelled sends/port batches, receiver mode, network schedule, H1 deferral). Non-trivial iff the wire carried >=1 multi-chunk message and (a send was cancelled, or >=2 ports were interleaved, or credit exhaustion was reached). Distinct by hash(cfg classes, op shapes, receiver modes, interleaving signature of the wire trace).".into(),
        explanation: "Every received event sequence was compared byte-for-byte with the sequence of completed sends of its port direction (prefix while running, equality after end-of-stream); wire invariants W1-W9 ran on every frame.".into(),
        assumptions: vec![
            "the transport is ordered and reliable (simnet never reorders within a direction)".into(),
            "tokio current_thread runtime with paused clock; schedules are those produced by simnet delays, H1 deferral and tokio's seeded select".into(),
        ],
        exhaustive: false,
        min_nontrivial: ctx.tier.pick(200, 2000),
        extra: BTreeMap::new(),
    };
    let (mut agg, mut rep) = (agg, rep);
    memcheck(ctx, &mut agg, &mut rep, 300);
    finish(ctx, agg, rep)
}

fn c02_check(ctx: &Ctx) -> i32 {
    let budget = Duration::from_secs(ctx.tier.pick(20, 200));
    let opts = Arc::new(c01::Opts { prop: "C02", cancel_pct: 25, allow_ports: true, max_ops: 8, stalls: true, pending_violation: false });
    let mut agg = shard_runs(ctx, "mix", ctx.tier.pick(8_000, 800_000), budget, Duration::from_secs(60), Arc::new(move |run, seed| c01::run_one(run, seed, &opts)));
    let agg2 = shard_runs(ctx, "window", ctx.tier.pick(8_000, 800_000), budget, Duration::from_secs(60), Arc::new(c02::run_one));
    agg.merge(agg2);
    let full = agg.counter("runs_reaching_full_window");
    let mut extra = BTreeMap::new();
    extra.insert("w3_evaluations".into(), serde_json::json!(agg.counter("w3_evals")));
    extra.insert("w4_evaluations".into(), serde_json::json!(agg.counter("w4_evals")));
    extra.insert("max_outstanding_over_limit_permille".into(), serde_json::json!(agg.maxv("max_w3_ratio_permille")));
    let mut rep = Report {
        level: "exploration",
        rule: "one case = one seeded run; phase 'mix' = C01-style traffic with cancellations and transport stalls, phase 'window' = one port driven into the credit limit (credit direction starved until quiescence / receiver never polled / port batches / empty messages / cancelled history). Non-trivial iff W3 was evaluated with outstanding >= 50% of the peer's buffer (window phase) or the C01 rule (mix phase). Distinct by hash(cfg classes, variant, sizes, interleaving signature).".into(),
        explanation: "W2 (chunk size), W3 (outstanding <= advertised receive buffer, with credits counted from the moment the credit frame was handed to the sender) and W4 (credits granted <= cost handed to the granting endpoint) were evaluated at every Data/PortData/PortCredits frame of every run; the maximum outstanding/limit ratio must reach 1.0 for the run set to count.".into(),
        assumptions: vec!["transport ordered and reliable".into(), "reference decoder (harness/src/refcodec.rs) states the wire format".into()],
        exhaustive: false,
        min_nontrivial: ctx.tier.pick(200, 2000),
        extra,
    };
    if full == 0 || agg.maxv("max_w3_ratio_permille") < 1000 {
        rep.min_nontrivial = u64::MAX; // trivial run set: the window was never filled
    }
    finish(ctx, agg, rep)
}

fn c03_check(ctx: &Ctx) -> i32 {
    let budget = Duration::from_secs(ctx.tier.pick(20, 200));
    let opts = Arc::new(c01::Opts { prop: "C03", cancel_pct: 35, allow_ports: true, max_ops: 8, stalls: true, pending_violation: true });
    let mut agg = shard_runs(ctx, "mix", ctx.tier.pick(8_000, 800_000), budget, Duration::from_secs(60), Arc::new(move |run, seed| c01::run_one(run, seed, &opts)));
    let agg2 = shard_runs(ctx, "scen", ctx.tier.pick(8_000, 800_000), budget, Duration::from_secs(60), Arc::new(c03::run_one));
    agg.merge(agg2);
    let rep = Report {
        level: "exploration",
        rule: "one case = one seeded run; phase 'mix' = C01-style traffic with 35% cancelled sends, try_send and transport stalls where every receiver consumes; phase 'scen' = connect(k ports) with left-over credits in 4..12 byte buffers / port blocking with queues of length 1 / exhaust-then-cancel behind a stalled transport followed by a full-window probe. Distinct by hash(cfg classes, variant, parameters, interleaving signature); every scen run is non-trivial, mix runs by the C01 rule.".into(),
        explanation: "Liveness is judged only at quiescence of a healthy, fully released network under the virtual clock: every send/connect whose receiver consumed everything must have completed; any PortData frame with zero ports is a zero-progress frame.".into(),
        assumptions: vec!["quiescence = progress counter unchanged across a virtual 1 ms sleep on a paused current_thread runtime".into()],
        exhaustive: false,
        min_nontrivial: ctx.tier.pick(200, 2000),
        extra: BTreeMap::new(),
    };
    finish(ctx, agg, rep)
}

fn c09_check(ctx: &Ctx) -> i32 {
    let budget = Duration::from_secs(ctx.tier.pick(20, 120));
    let mut agg = shard_runs(ctx, "peer", ctx.tier.pick(3_000, 200_000), budget, Duration::from_secs(60), Arc::new(c09::run_one));
    let agg2 = shard_runs(ctx, "stream", ctx.tier.pick(1_000, 50_000), budget, Duration::from_secs(60), Arc::new(c09::run_stream));
    agg.merge(agg2);
    let agg3 = shard_runs(ctx, "streampair", ctx.tier.pick(1_000, 50_000), budget, Duration::from_secs(60), Arc::new(c09::run_stream_pair));
    agg.merge(agg3);
    // every (direction, kind, flags, peer version) cell that the protocol defines must have been observed
    let mut required: Vec<String> = Vec::new();
    for v in [2u8, 3] {
        for dir in ["emit", "accept"] {
            for k in ["Reset", "Hello", "PortOpened", "PortCredits", "SendFinish", "ReceiveClose", "ReceiveFinish", "ClientFinish", "ListenerFinish", "Goodbye", "Ping"] {
                required.push(format!("{dir}:{k}:0:v{v}"));
            }
            for f in 0..4 {
                required.push(format!("{dir}:Data:{f}:v{v}"));
            }
            for f in 0..2 {
                required.push(format!("{dir}:Rejected:{f}:v{v}"));
                // OpenPort: id flag (2) iff v3
                required.push(format!("{dir}:OpenPort:{}:v{v}", f | if v >= 3 { 2 } else { 0 }));
            }
            for f in 0..8 {
                required.push(format!("{dir}:PortData:{}:v{v}", f | if v >= 3 { 8 } else { 0 }));
            }
        }
    }
    let seen = agg.sets.get("cells").cloned().unwrap_or_default();
    let missing: Vec<String> = required.iter().filter(|c| !seen.contains(*c)).cloned().collect();
    let mut extra = BTreeMap::new();
    extra.insert("cells_required".into(), serde_json::json!(required.len()));
    extra.insert("cells_observed".into(), serde_json::json!(seen.iter().collect::<Vec<_>>()));
    extra.insert("cells_missing".into(), serde_json::json!(missing));
    let mut rep = Report {
        level: "exploration",
        rule: "one case = one scripted conversation between a real endpoint and the harness speaking reference-codec bytes as a v2 or v3 peer, with seeded Cfg/Hello values, boundary port numbers, sizes, flag choices and answers. The (direction, message kind, flag set, peer version) cell space is enumerated completely (missing cells fail the check); every conversation is non-trivial; distinct by seed.".into(),
        explanation: "emit: every frame of the real endpoint was decoded by the strict independent decoder and compared with what the triggering API call implies (port named, flags, ids only for v3 peers, chunk bound, Hello fields). accept: reference-encoded frames (v3 forms and id-less v2 forms) had to be understood exactly (request ids/ports/wait, data bytes, response classes, close/finish semantics, Goodbye exchange ends run() with Ok).".into(),
        assumptions: vec!["harness/src/refcodec.rs is the frozen statement of protocol version 3 (written from the documented layout)".into()],
        exhaustive: missing.is_empty(),
        min_nontrivial: ctx.tier.pick(500, 5000),
        extra,
    };
    if !missing.is_empty() {
        println!("C09: cells not observed: {missing:?}");
        rep.min_nontrivial = u64::MAX;
    }
    finish(ctx, agg, rep)
}

fn c10_check(ctx: &Ctx) -> i32 {
    let budget = Duration::from_secs(ctx.tier.pick(30, 300));
    let agg = shard_runs(ctx, "main", ctx.tier.pick(60_000, 3_000_000), budget, Duration::from_secs(60), Arc::new(|run, seed| if run % 6 == 5 { c10::run_exhaustion(run, seed) } else { c10::run_one(run, seed) }));
    let rep = Report {
        level: "exploration",
        rule: "one case = one seeded run: 2-8 tagged port-open requests (client connect_ext or ports sent over a port, wait flag, optionally cancelled at poll n) against a listener that inspects and accepts / accepts later / rejects(false|true) / drops requests, uses Listener::accept directly (optionally cancelled at poll n) or is dropped; max_ports 2..8, connect_queue 1..4, all three ports_exhausted policies as a configuration dimension. Every sixth run is a local-port-exhaustion run: all max_ports (2-4) ports of the client endpoint open, 2-4 connect() calls waiting for a local port, 0-3 of them dropped (newest first or in random order), then 1..max_ports-1 ports closed on both sides: every freed port must resume one waiting call. Non-trivial iff >=2 client requests were outstanding at once on the wire or a connect/accept was cancelled. Distinct by hash(outcomes, listener actions, interleaving signature).".into(),
        explanation: "Outcome table (accept=>Ok and tags echoed over the pair match on both sides; reject(false)/dropped request/dropped listener=>Rejected; reject(true)/no server port=>RemotePortsExhausted; LocalPortsExhausted and TooManyPendingConnectionRequests only with wait=false and only when truthful), every request resolved by quiescence, no request seen twice by the listener, W5 (unanswered OpenPort <= advertised connect_queue) and W6 on every frame, and the Connect::sent ordering probe. Cfg::ports_exhausted is read by no code path of this tree; requests are judged by the wait flag they ran with (recorded, not a violation).".into(),
        assumptions: vec!["tags travel as port ids (PortReq::with_id) and over the accepted pair".into()],
        exhaustive: false,
        min_nontrivial: ctx.tier.pick(300, 3000),
        extra: BTreeMap::new(),
    };
    finish(ctx, agg, rep)
}

fn c07_check(ctx: &Ctx) -> i32 {
    let budget = Duration::from_secs(ctx.tier.pick(30, 300));
    // cycle test first, alone, so that the process-wide heap counter is not disturbed by other shards
    let mut agg = crate::evidence::Agg::default();
    if ctx.replay.is_none() {
        crate::simnet::set_shard(63);
        crate::clock::set_thread_prefix("cyc-".into());
        let out = c07::cycle_test(ctx.seed, ctx.tier.pick(500, 5000));
        agg.absorb("cycle", 0, ctx.seed, out, 4);
    }
    let agg2 = shard_runs(ctx, "main", ctx.tier.pick(20_000, 2_000_000), budget, Duration::from_secs(60), Arc::new(c07::run_one));
    agg.merge(agg2);
    let rep = Report {
        level: "exploration",
        rule: "one case = one seeded run: 0-4 port pairs (client connects and ports sent over a port), optional traffic, a pending connect / an unanswered request, client clones; every sender, receiver, connect, request, client and listener of both endpoints is dropped in PRNG order interleaved with yields, quiescence points, network delays and H1 deferral of the drop-notification tasks. Non-trivial iff >=2 pairs with drops on both sides. Distinct by hash(drop order, interleaving signature). Plus one cycle test (open/transfer/close cycles on one connection, heap and task count sampled at quiescence after 20% and 100% of the cycles).".into(),
        explanation: "At quiescence after the last drop both dispatchers must have returned Ok(()) with the transport still open; no internally spawned task may be alive; max_ports port numbers must be allocatable on both endpoints; W6 (no port number reused while open, open+connecting <= max_ports, no frame for a finished port) ran on every frame; heap and task count must not grow with the number of cycles.".into(),
        assumptions: vec!["internal tasks are counted by hook H1 (thread-local counter), heap by the harness's counting allocator".into()],
        exhaustive: false,
        min_nontrivial: ctx.tier.pick(300, 3000),
        extra: BTreeMap::new(),
    };
    let (mut agg, mut rep) = (agg, rep);
    memcheck(ctx, &mut agg, &mut rep, 300);
    finish(ctx, agg, rep)
}

fn c06_check(ctx: &Ctx) -> i32 {
    use crate::simnet::Delivery;
    let budget = Duration::from_secs(ctx.tier.pick(40, 400));
    crate::simnet::set_shard(63);
    crate::clock::set_thread_prefix("main-".into());
    let schedules: Vec<Delivery> = match ctx.tier {
        crate::evidence::Tier::Quick => vec![Delivery::Eager, Delivery::Random { max_yield: 3, max_burst: 2 }],
        crate::evidence::Tier::Thorough => vec![
            Delivery::Eager,
            Delivery::Random { max_yield: 1, max_burst: 4 },
            Delivery::Random { max_yield: 3, max_burst: 2 },
            Delivery::Random { max_yield: 12, max_burst: 1 },
            Delivery::Random { max_yield: 6, max_burst: 3 },
            Delivery::Random { max_yield: 2, max_burst: 1 },
        ],
    };
    let h1s: Vec<u64> = ctx.tier.pick(vec![0], vec![0, 30]);
    let mut agg = crate::evidence::Agg::default();
    let mut cases: Vec<c06::Case> = Vec::new();
    let mut clean_frames = Vec::new();
    for (si, d) in schedules.iter().enumerate() {
        for h1 in &h1s {
            for orderly in [false, true] {
                let clean = c06::run_case(crate::evidence::mix(ctx.seed, si as u64, 99), &c06::Case { fault: None, drop_visible: true, delivery: *d, h1: *h1, sym: false, orderly_end: orderly });
                clean_frames.push(format!("{:?}/h1={}/orderly={}: {:?} frames", d, h1, orderly, clean.frames));
                if ctx.replay.is_none() {
                    agg.absorb("clean", si as u64, ctx.seed, clean.out, 2);
                }
                cases.extend(c06::enumerate(clean.frames, *d, *h1, orderly));
            }
        }
    }
    let n = cases.len() as u64;
    let cases = Arc::new(cases);
    let c2 = cases.clone();
    let agg2 = shard_runs(ctx, "faults", n, budget, Duration::from_secs(60), Arc::new(move |run, seed| {
        let case = &c2[run as usize];
        let mut r = c06::run_case(seed, case);
        if run % 977 == 0 {
            r.out.sample = Some(serde_json::json!({"fault": format!("{:?}", case.fault), "drop_visible": case.drop_visible, "delivery": format!("{:?}", case.delivery), "fired": r.fault_fired}));
        }
        r.out
    }));
    let complete = agg2.evaluations == n;
    agg.merge(agg2);
    if ctx.replay.is_none() {
        for (i, sym, buffered) in [(0u64, true, false), (1, false, false), (2, true, true), (3, false, true)] {
            let out = c06::idle_test(crate::evidence::mix(ctx.seed, i, 7), sym, buffered);
            agg.absorb("idle", i, ctx.seed, out, 2);
        }
    }
    let mut extra = BTreeMap::new();
    extra.insert("clean_runs".into(), serde_json::json!(clean_frames));
    extra.insert("fault_cases_enumerated".into(), serde_json::json!(n));
    let rep = Report {
        level: "fault_enumeration",
        rule: "fixed chmux workload (handshake, client port, multi-chunk message each way, port sent over a port, message on it, pending accept / closed() / idle recv, optional orderly end); a clean run per (schedule, H1, ending) records F frames per direction; then EVERY (direction, frame index 0..F+1, fault kind in {sink error, stream error, end of stream, black hole both ways, black hole one way, writer stalled for ever (back-pressure)}, peer drop visible yes/no) is run; odd fault positions use a transport that buffers frames until the sink is flushed. A case is the tuple; all are non-trivial; distinct by the tuple; cases whose fault index lies beyond the frames actually sent are counted separately (faults_not_reached). Plus idle tests (1000 x timeout of virtual idleness; symmetric and asymmetric timeouts; plain and buffering transport).".into(),
        explanation: "After the fault: the endpoint that observes it directly must have terminated at the next quiescence (no clock advance needed); after 3x(T_A+T_B) virtual seconds every dispatcher and every API future (tracked operation registry) must have completed; dispatcher errors must be transport classes (never Protocol); received messages must be a prefix of the sent ones; an idle healthy connection must survive 1000 timeouts and still carry a message.".into(),
        assumptions: vec!["timeouts A=10 s, B=60 s (asymmetric) on tokio's paused clock".into(), "fault positions are those of this workload".into()],
        exhaustive: complete,
        min_nontrivial: ctx.tier.pick(500, 5000),
        extra,
    };
    finish(ctx, agg, rep)
}

fn c08_check(ctx: &Ctx) -> i32 {
    let budget = Duration::from_secs(ctx.tier.pick(30, 300));
    let mut agg = crate::evidence::Agg::default();
    // memory oracle first, alone in the process (process-wide heap counter)
    if ctx.replay.is_none() {
        crate::simnet::set_shard(63);
        crate::clock::set_thread_prefix("flood-".into());
        for (i, class) in c08::FLOODS.iter().enumerate() {
            let out = c08::flood_test(crate::evidence::mix(ctx.seed, i as u64, 5), class, ctx.tier.pick(2_000, 20_000));
            agg.absorb("flood", i as u64, ctx.seed, out, 0);
        }
        for v in 0..4u64 {
            let out = c08::stream_hostile(crate::evidence::mix(ctx.seed, v, 6), v);
            agg.absorb("streamhostile", v, ctx.seed, out, 0);
        }
    }
    let agg2 = shard_runs(ctx, "fuzz", ctx.tier.pick(40_000, 3_000_000), budget, Duration::from_secs(60), Arc::new(c08::run_one));
    agg.merge(agg2);
    let rep = Report {
        level: "exploration",
        rule: "one case = one frame sequence: grammar-generated valid prefix against a real endpoint (handshake, 1-2 pairs, optionally one freed / half-closed pair, an echo, the endpoint's own pending connect) followed by 1-6 hostile steps drawn from 30 mutation kinds (random bytes, truncation, unknown codes/flags, Hello again, Reset, Data without payload / for unknown, connecting, freed ports, oversize chunk, credit overdraw by 1, credit overflow, duplicate / flooded OpenPort, PortOpened/Rejected for wrong ports, repeated finish/close, frames after Goodbye, zero-port PortData, id-count mismatch, huge and duplicate port lists, hostile handshakes). Non-trivial iff the established phase was reached and >=1 hostile step was sent; distinct by hash(hostile kinds sequence, peer version, cfg class). Plus 6 flood classes for the memory oracle (N and 4N frames, paced in bursts of 100 with quiescence between).".into(),
        explanation: "Oracles: process panic hook (any panic on the shard's threads); if the dispatcher terminated, every local operation (accept loop, echo services, connect, run) must have completed by quiescence; if it did not terminate (and no Goodbye/ClientFinish was injected) a fresh well-formed open + echo must still work; every frame the endpoint emitted must decode strictly; heap growth between N and 4N flood frames must stay under 16 kB + frames/8 with the receiver idle.".into(),
        assumptions: vec!["the hostile peer keeps reading (outbound healthy); back-pressure from a dead reader is out of scope".into(), "heap measured by the harness's counting global allocator at quiescence".into()],
        exhaustive: false,
        min_nontrivial: ctx.tier.pick(300, 3000),
        extra: BTreeMap::new(),
    };
    let (mut agg, mut rep) = (agg, rep);
    memcheck(ctx, &mut agg, &mut rep, 400);
    finish(ctx, agg, rep)
}

fn c04_check(ctx: &Ctx) -> i32 {
    let budget = Duration::from_secs(ctx.tier.pick(35, 400));
    let agg = shard_runs(ctx, "main", ctx.tier.pick(12_000, 600_000), budget, Duration::from_secs(30), Arc::new(c04::run_one));
    let rep = Report {
        level: "exploration",
        rule: "one case = one channel history: kind in {base, mpsc with remote receiver, mpsc with remote sender (1-3 sender clones), lr, oneshot} over Connect::framed on the simulated network; 1-7 items per sender with encoded sizes around max_data_size (buffered vs streamed through the helper thread), chunk_size, receive_buffer and the sender/receiver max_item_size; failing items (serialisation error raised at the end of the item, sender limit, receiver limit, send cancelled at poll n) at random positions. Non-trivial iff >=1 item beyond the buffered/streamed boundary or a failed/cancelled item strictly inside the stream. Distinct by hash(kind, cfg classes, sizes, outcomes, interleaving signature).".into(),
        explanation: "Per sender the received values must be intact (payload determined by id), in order, without duplicates, a prefix of that sender's successful sends (equality at a clean end of base/lr channels and of failure-free mpsc channels); failed or cancelled items must not be delivered; item failures must be non-final on base/lr; the receiver-side limit must hold; no send may be pending at quiescence.".into(),
        assumptions: vec!["encoded size = payload length + <48 bytes (postbag codec); items within 48 bytes of the receiver limit may legitimately be refused".into(), "mpsc channels end at the first item-specific failure (documented and tested behaviour): only the prefix property is required after one".into()],
        exhaustive: false,
        min_nontrivial: ctx.tier.pick(300, 3000),
        extra: BTreeMap::new(),
    };
    let mut agg = agg;
    // a run that is stuck with all threads blocked (helper thread waiting for ever) is a violation of C04's liveness part
    for (phase, run, seed) in agg.stuck.clone() {
        agg.viols.push((phase, run, seed, crate::evidence::Viol { signature: "C04:stuck-helper-thread".into(), detail: "run did not reach quiescence: all threads of the shard blocked, progress counter frozen (OS-level quiescence)".into(), replay: serde_json::json!({"run": run, "seed": seed}) }));
    }
    let (mut agg, mut rep) = (agg, rep);
    memcheck(ctx, &mut agg, &mut rep, 300);
    finish(ctx, agg, rep)
}

fn c13_check(ctx: &Ctx) -> i32 {
    let budget = Duration::from_secs(ctx.tier.pick(30, 360));
    let agg = shard_runs(ctx, "main", ctx.tier.pick(60_000, 3_000_000), budget, Duration::from_secs(30), Arc::new(robs::c13_run));
    let rep = Report {
        level: "exploration",
        rule: "one case = (collection in {vec, vec_deque, hash_map, hash_set, list}, random initial content, 1-60 operations over the whole mutating API incl. entry API, get_mut/iter_mut with and without writes, retain (hash_map also with a mutating closure), resize up/down, swap-remove variants, truncate, fill, extend, no-op cases; subscription point anywhere in the sequence; snapshot or incremental; mirror local / over a connection / re-subscribed from a mirror). Non-trivial iff >=1 operation follows the subscription point. Distinct by hash of the tuple.".into(),
        explanation: "At quiescence (buffers larger than the history, nothing lags): Mirrored::borrow must be Ok and equal the observable's own contents, is_done must equal 'done() was called', is_complete must hold; an independent applier in the harness consuming a second subscription's event stream must reach the same contents. A difference that is exactly 'values mutated inside hash_map retain() are not reported' is attributed to the known finding only if the mirror equals the hand-applied event stream.".into(),
        assumptions: vec!["the observable's Deref contents are the ground truth".into()],
        exhaustive: false,
        min_nontrivial: ctx.tier.pick(2000, 20000),
        extra: BTreeMap::new(),
    };
    finish(ctx, agg, rep)
}

fn c14_check(ctx: &Ctx) -> i32 {
    let budget = Duration::from_secs(ctx.tier.pick(30, 360));
    let agg = shard_runs(ctx, "main", ctx.tier.pick(40_000, 2_000_000), budget, Duration::from_secs(30), Arc::new(robs::c14_run));
    let rep = Report {
        level: "exploration",
        rule: "one case = (collection, variant in {lag: event buffer 1-4 with bursts of 1-7 operations without yielding; drop: observed collection dropped before done at a random burst; maxsize: mirror limit 1-6 reached through any growing event or an initial snapshot that is already too large; cut: remote mirror with a transport fault at a random frame; list: 1-4 subscribers joining at any time, slow readers, local or remote}, operation bursts, snapshot/incremental). Every case is non-trivial; distinct by hash of the tuple incl. operations.".into(),
        explanation: "Reference = a never-lagging second subscription applied event by event by the harness (C13 establishes that this stream is right). At every checkpoint (quiescence) a mirror that answers Ok must present exactly the current state of the event history; after it reported an error it must keep reporting one; the error class must fit what happened (Lagged / Closed / MaxSizeExceeded / Remote*); detach() after an error must return a state of the history; list subscribers must receive every element exactly once in order.".into(),
        assumptions: vec!["judged at quiescence only (transient states while events are in flight are not judged)".into()],
        exhaustive: false,
        min_nontrivial: ctx.tier.pick(2000, 20000),
        extra: BTreeMap::new(),
    };
    finish(ctx, agg, rep)
}

fn c15_check(ctx: &Ctx) -> i32 {
    let budget = Duration::from_secs(ctx.tier.pick(30, 300));
    let agg = shard_runs(ctx, "main", ctx.tier.pick(20_000, 1_500_000), budget, Duration::from_secs(30), Arc::new(|run, seed| if run % 5 == 4 { wb::c15_picky(run, seed) } else { wb::c15_run(run, seed) }));
    let rep = Report {
        level: "exploration",
        rule: "one case = one seeded run: a watch channel with 1-40 increasing updates at random rates (back-to-back, yields, quiescence points); the receiver half is transferred to another endpoint (1 or 2 hops) at a random update index while updates continue, or the sender half is transferred; an extra receiver subscribes at a random index; observation through changed+borrow_and_update, changed+borrow, wait_for or the stream; in 70% of the runs the sender is dropped immediately after the last send. Non-trivial iff a receiver skipped >=1 value (coalescing path) or 2 hops were used. Distinct by hash(seed parameters, interleaving signature). Every fifth run uses a value type that the receiving endpoint cannot decode for every fifth value (item error on the receive side): 2-21 updates with quiescence every 1-4 updates, last value decodable, sender kept or dropped.".into(),
        explanation: "Per receiver: only sent values, never an older value after a newer one; at quiescence of the healthy connection the last observed value equals the last value sent (also the one sent right before the sender dropped) and the observation loop has ended when the sender was dropped. Receive-side item errors are reported through borrow and do not end the channel: the receiver still converges to the latest value, never observes an undecodable one and does not report closure while the sender lives.".into(),
        assumptions: vec!["values are increasing integers, so 'in sending order' is monotonicity".into()],
        exhaustive: false,
        min_nontrivial: ctx.tier.pick(300, 3000),
        extra: BTreeMap::new(),
    };
    finish(ctx, agg, rep)
}

fn c16_check(ctx: &Ctx) -> i32 {
    let budget = Duration::from_secs(ctx.tier.pick(30, 300));
    let mut agg = shard_runs(ctx, "main", ctx.tier.pick(20_000, 1_500_000), budget, Duration::from_secs(30), Arc::new(wb::c16_run));
    if ctx.replay.is_none() {
        // multi-thread leg: clones of one sender used from several OS threads at once
        for i in 0..ctx.tier.pick(3u64, 30) {
            let out = wb::c16_parallel(crate::evidence::mix(ctx.seed, i, 3), 4, ctx.tier.pick(20_000, 100_000));
            agg.absorb("parallel", i, ctx.seed, out, 0);
        }
    }
    let rep = Report {
        level: "exploration",
        rule: "one case = one seeded run: 1-60 broadcast sends in bursts; 1-4 subscribers joining at random indices with send buffer and receive buffer in {1,2,4}, consumption rate and burst size per subscriber, local or transferred to the other endpoint, some never reading; optionally a subscriber that drains between all sends. Non-trivial iff >=1 subscriber was lagged. Distinct by hash(subscriber parameters, interleaving signature).".into(),
        explanation: "Lag-marker grammar per subscriber: values strictly increasing; a gap only with a Lagged error between its neighbours; no Lagged without a gap; a subscriber whose stream ended must have got the last value or a Lagged after its last value; a draining subscriber sees every value and no Lagged; every reading subscriber reaches the end of the broadcast by quiescence although others are slow or never read.".into(),
        assumptions: vec!["values are consecutive integers".into()],
        exhaustive: false,
        min_nontrivial: ctx.tier.pick(300, 3000),
        extra: BTreeMap::new(),
    };
    finish(ctx, agg, rep)
}

fn c11_check(ctx: &Ctx) -> i32 {
    let budget = Duration::from_secs(ctx.tier.pick(30, 300));
    let cases = Arc::new(c11::enumerate());
    let reps = ctx.tier.pick(60u64, 1500);
    let n = cases.len() as u64 * reps;
    let c2 = cases.clone();
    let agg = shard_runs(ctx, "main", n, budget, Duration::from_secs(30), Arc::new(move |run, seed| {
        let case = &c2[(run % c2.len() as u64) as usize];
        c11::run_case(run, seed, case)
    }));
    let mut extra = BTreeMap::new();
    extra.insert("positions_enumerated".into(), serde_json::json!(cases.len()));
    extra.insert("schedules_per_position".into(), serde_json::json!(reps));
    let rep = Report {
        level: "exploration",
        rule: "EVERY (channel kind in {port, base, lr, mpsc with 1-3 senders}, event in {all senders dropped, sender dropped inside a chunked message (port), receiver closed, receiver dropped}, stream length in {1,2,4,8}, event position 0..=length) is run, each under several seeded (Cfg pair, message sizes incl. multi-chunk, network schedule, H1) draws. A case is the tuple x seed; all are non-trivial; distinct by hash(tuple, sizes, interleaving signature).".into(),
        explanation: "Sender drop: the receiver obtains every completed send, then end-of-stream, no error. Receiver close (receiver keeps receiving): every completed send is delivered, end-of-stream follows, a send after quiescence is refused, errors are classified as graceful close (is_closed / Closed{gracefully:true} / ClosedReason::Closed), Sender::closed() resolves. Receiver drop: later sends are refused and classified as not graceful (ClosedReason::Dropped), closed() resolves. mpsc: per sender the Sending results are Ok..Ok Err..Err and every Ok value was delivered.".into(),
        assumptions: vec!["'eventually observable' restated as 'by quiescence of the healthy connection'".into()],
        exhaustive: false,
        min_nontrivial: ctx.tier.pick(1000, 10000),
        extra,
    };
    finish(ctx, agg, rep)
}

fn c05_check(ctx: &Ctx) -> i32 {
    let budget = Duration::from_secs(ctx.tier.pick(30, 360));
    let mut agg = shard_runs(ctx, "main", ctx.tier.pick(8_000, 600_000), budget, Duration::from_secs(30), Arc::new(c05::run_one));
    let agg2 = shard_runs(ctx, "interlock", ctx.tier.pick(500, 20_000), budget, Duration::from_secs(30), Arc::new(c05::run_interlock));
    agg.merge(agg2);
    let rep = Report {
        level: "exploration",
        rule: "one case = one value journey: a generated value (lists, options, pairs, maps, enum variants, nesting <= 3) with 0-12 labelled channel halves of 11 kinds (mpsc S/R, oneshot S/R, watch S/R, broadcast R, bin S/R, lr S/R) is sent over 1-3 connections in a row (re-sent by each receiving endpoint), 25% of the journeys with 8-16 byte receive buffers and 4-16 byte chunks; afterwards every received half and its counterpart at the origin are exercised concurrently. Non-trivial iff >= 2 halves or >= 2 hops. Distinct by hash(shape, hops, interleaving signature). Plus interlock runs (both halves of an lr / bin channel sent away).".into(),
        explanation: "Label matrix: the value delivered through half k must be the one sent into counterpart k (value = label*1000 + direction), exactly the diagonal; a half that delivers nothing and no error by quiescence is a hang; every sent half must arrive, none twice; sending the second half of a single-connection channel must be refused; no PortData frame without ports.".into(),
        assumptions: vec!["max_ports is large enough (64) for every journey: port exhaustion with wait=true is a wait by design and is not driven".into()],
        exhaustive: false,
        min_nontrivial: ctx.tier.pick(300, 3000),
        extra: BTreeMap::new(),
    };
    let (mut agg, mut rep) = (agg, rep);
    memcheck(ctx, &mut agg, &mut rep, 200);
    finish(ctx, agg, rep)
}

fn c17_check(ctx: &Ctx) -> i32 {
    let budget = Duration::from_secs(ctx.tier.pick(30, 360));
    let agg = shard_runs(ctx, "main", ctx.tier.pick(20_000, 2_000_000), budget, Duration::from_secs(30), Arc::new(c17::run_one));
    let rep = Report {
        level: "exploration",
        rule: "one case = one history: an Owner on endpoint A, 1-2 local lock clones and 0-2 clones on endpoint B (own or shared cache), each running a script of 1-7 reads (hold 0-10 virtual ms), writes (hold 0-5 ms, commit or drop) and pauses. Non-trivial iff at least two operations of different clients overlap in logical time. Distinct by hash of the recorded history.".into(),
        explanation: "Recorded on a global logical clock at the client boundary: request, guard obtained (with the value seen), guard released / commit returned. Oracles: no write guard interval overlaps any other guard interval; the value never changes under a read guard; every value read is the initial one or a committed one, not older than a commit that completed before the read began (no stale read), never an uncommitted one; after everything completed a final read returns the last committed value; no request is pending at quiescence although every guard was released.".into(),
        assumptions: vec!["exclusion and freshness judged on logical time at the client boundary (sound because the owner grants a write only after every copy was dropped)".into(), "deterministic virtual-time leg only (no multi-thread leg yet)".into()],
        exhaustive: false,
        min_nontrivial: ctx.tier.pick(300, 3000),
        extra: BTreeMap::new(),
    };
    finish(ctx, agg, rep)
}

fn c18_check(ctx: &Ctx) -> i32 {
    let budget = Duration::from_secs(ctx.tier.pick(30, 360));
    let agg = shard_runs(ctx, "main", ctx.tier.pick(16_000, 2_000_000), budget, Duration::from_secs(30), Arc::new(c18::run_one));
    let rep = Report {
        level: "exploration",
        rule: "one case = one stream over an rch::io channel: sized or unsized; total length 0, 1, chunk_size-1/=/+1, receive_buffer-1/=/+1, 2*receive_buffer+chunk_size+3 or random up to 20000 bytes of pseudo-random data; both halves local, sender transferred, receiver transferred, or both transferred over two different connections; the writer runs a script of write calls (sizes 0, 1, chunk_size, chunk_size+1, receive_buffer+1, everything left, random; 8% of them dropped after 0-3 polls), flushes and pauses, writes all or (20%) only a part of the declared length, tries to write beyond a sized length, and ends with shutdown / flush+drop / drop; the reader reads with 1-5 cyclic buffer sizes (0, 1, chunk_size, chunk_size+1, receive_buffer+1, random), optionally dropping 10% of its read futures after 0-3 polls; in 25% of the remote runs the connection is cut (sink error, stream error, EOF) at a random frame. Non-trivial iff bytes were accepted, the ending is not a plain shutdown, or a cut was armed. Distinct by hash(placement, mode, lengths, ending, cut, outcome).".into(),
        explanation: "Recorded at the AsyncWrite/AsyncRead boundary: bytes accepted per write call, flush/shutdown results, bytes obtained per read call, the reader's final verdict. Oracles: the bytes read are a prefix of the bytes accepted; a successful end of file only after exactly the size fixed at creation (sized) or the size announced by a successful shutdown (unsized), and it stays end of file; nothing is accepted beyond a sized length; shutdown of a sized sender that wrote less fails; Sender::bytes_written() equals the accepted total; an empty write/read transfers nothing; on an undisturbed stream the reader's verdict is determined (complete -> EOF, unfinished -> error, every flushed byte read) and neither side is pending at quiescence; after a cut both sides end (error or, if everything had arrived, success).".into(),
        assumptions: vec!["`flushed` (bytes followed by a successful flush/shutdown) is a lower bound of what was transmitted; verdicts that depend on unflushed bytes are not judged".into(), "single-thread virtual-time leg".into()],
        exhaustive: false,
        min_nontrivial: ctx.tier.pick(300, 3000),
        extra: BTreeMap::new(),
    };
    let (mut agg, mut rep) = (agg, rep);
    memcheck(ctx, &mut agg, &mut rep, 400);
    finish(ctx, agg, rep)
}

fn c20_check(ctx: &Ctx) -> i32 {
    let budget = Duration::from_secs(ctx.tier.pick(30, 360));
    let agg = shard_runs(ctx, "main", ctx.tier.pick(12_000, 2_000_000), budget, Duration::from_secs(30), Arc::new(|run, seed| if run % 2 == 0 { c20::run_handles(run, seed) } else { c20::run_lazy(run, seed) }));
    let rep = Report {
        level: "exploration",
        rule: "even runs = one handle history: 2-4 endpoints joined by 1-3 connections (line or triangle), three values of one type behind handles (two created on endpoint 0, one on endpoint 1; with or without provider), 4-27 random operations: clone, transfer over a link in either direction, drop, drop the provider, use through a cast to another type (and cast back), into_inner, as_ref/as_mut; then release: every handle dropped in random order, or provider plus the handles at home dropped while handles on other endpoints stay alive. Odd runs = one lazy transfer: Lazy<Item> or LazyBlob of length 0, 1, chunk_size-1/=/+1, receive_buffer-1/=/+1, 3*receive_buffer+5 or random up to 30000 bytes, forwarded 1-4 hops over the same topologies (possibly back to its origin), provider kept / keep()-style / dropped before the fetch, 1-3 concurrent fetchers for blobs (get twice, or get then into_inner), in 25% of the runs one of the connections on the path is cut (sink error, stream error, EOF) at a random frame during the fetch. Non-trivial iff a handle was transferred / always for lazy runs. Distinct by hash of the operation log with outcomes / (kind, length, path, provider, cut).".into(),
        explanation: "Handles: each value identifies itself and counts its destruction. An access returning Ok must happen on the creating endpoint, at the original type, before the value was taken, and must yield exactly that value; any access on another endpoint, through a cast, or after into_inner must be an error; a handle that never left its endpoint must work; no access is pending at quiescence; the value is not destroyed while a native handle is alive, and is destroyed exactly once after every handle everywhere is gone, or after the provider and the handles at home are gone (handles left on other endpoints must not resolve afterwards). Lazy: a fetched value/blob equals what was provided byte for byte (LazyBlob::len too), repeated fetches agree, a fetch after the provider was dropped is an error, a fetch over an undisturbed path succeeds, a fetch across a cut connection is an error or the exact value, never a prefix, and is not pending at quiescence.".into(),
        assumptions: vec!["whether a handle that returns to its creating endpoint over another connection, or as the second of several remote clones, resolves is not judged (recorded in home_refusals / resolved_lineages)".into(), "single-thread virtual-time leg".into()],
        exhaustive: false,
        min_nontrivial: ctx.tier.pick(300, 3000),
        extra: BTreeMap::new(),
    };
    let (mut agg, mut rep) = (agg, rep);
    memcheck(ctx, &mut agg, &mut rep, 400);
    finish(ctx, agg, rep)
}

fn c12_check(ctx: &Ctx) -> i32 {
    let budget = Duration::from_secs(ctx.tier.pick(30, 360));
    let agg = shard_runs(ctx, "main", ctx.tier.pick(12_000, 1_000_000), budget, Duration::from_secs(30), Arc::new(|run, seed| if run % 4 == 3 { rfnp::run_one(run, seed) } else { rtc::run_one("C12", run, seed) }));
    let rep = Report {
        level: "exploration",
        rule: "one case = one epoch history: a served object (ServerRefMut, ServerSharedMut with spawn false/true) with 1-5 clients (clones used locally and clones transferred to a second endpoint), each running 1-6 calls: &self read, &mut read-suspend-write (0-3 virtual-time suspension points, deliberately not atomic inside), #[no_cancel] variant, suspending &self call, pauses; every call carries a unique id and every mutation contributes a unique bit. Every fourth run drives a remote function instead (RFn with 1-3 cloned callers, RFnMut, RFnOnce; used locally or sent to the other endpoint; provider kept, dropped before the first call or dropped during the calls; arguments that cannot be serialized; callers abandoning calls; connection cut by a sink error, stream error or EOF at a random frame). Non-trivial iff at least two calls of different clients overlap in logical time (rtc) / at least two calls or an unsendable, abandoned or provider-less call (rfn). Distinct by hash(flavour, recorded history).".into(),
        explanation: "Per call: a returned callee result requires exactly one start and one finish in the target's execution log and the reply must echo the caller's id; a call error allows at most one execution. Linearizability: the bit sets returned by completed calls must be totally ordered by inclusion (a sequential order of the mutations), contain their own contribution, respect real-time order on the logical clock, and every acknowledged mutation must be in the final value. The server must still serve afterwards. Remote functions: every call has an outcome at quiescence (a call whose request cannot be transmitted or whose provider is gone must fail, not stay pending), a returned result belongs to exactly one run that saw exactly the argument passed (hash), an error to at most one, an unsendable call never runs, RFnMut/RFnOnce executions never overlap and an RFnOnce runs at most once.".into(),
        assumptions: vec!["register with commutative unique-bit updates: linearizability reduces to chain + real-time checks (exact for this model)".into(), "single-thread virtual-time leg".into()],
        exhaustive: false,
        min_nontrivial: ctx.tier.pick(300, 3000),
        extra: BTreeMap::new(),
    };
    finish(ctx, agg, rep)
}

fn c19_check(ctx: &Ctx) -> i32 {
    let budget = Duration::from_secs(ctx.tier.pick(30, 360));
    let mut agg = shard_runs(ctx, "main", ctx.tier.pick(12_000, 1_000_000), budget, Duration::from_secs(20), Arc::new(|run, seed| rtc::run_one("C19", run, seed)));
    // a run whose thread spins inside one poll with the progress counter frozen: the served loop (or a forwarding
    // task) busy-loops and starves everything else on the runtime
    for (phase, run, seed) in agg.spinning.clone() {
        agg.viols.push((phase, run, seed, crate::evidence::Viol { signature: "C19:server-spins".into(), detail: "the run's thread was busy for the whole watchdog period while no task made progress: a task loops without ever yielding (e.g. a serve loop retrying a receive that fails immediately again and again)".into(), replay: serde_json::json!({"run": run, "seed": seed}) }));
    }
    let rep = Report {
        level: "exploration",
        rule: "one case = one run of the C12 rig with 40% of the calls abandoned by their caller after 0-7 polls of the call future (never polled / queued / executing / replying; calls with replies of 300-60000 bytes abandoned after 0-39 polls, i.e. while the reply is in transmission and blocked on flow control), cancellable and #[no_cancel] &mut methods mixed, concurrent clients, in 40% of the runs a further client on a connection of its own that is cut (sink error, stream error, EOF at a random frame in the direction of the replies or of the requests) while its large replies are on their way, and 0-2 failing calls from a client built from a newer trait version on a separate connection: unknown method, reply above the client's reply limit, request above the server's request limit. Non-trivial iff a cancellation landed after the callee had started or a failing call was injected. Distinct by hash(flavour, recorded history).".into(),
        explanation: "An abandoned cancellable call must not pass another checkpoint after quiescence, and not more than one checkpoint after the moment its caller dropped the future (the cancellation travels in zero virtual time, a step of the callee takes 1 ms of it); a run in which tasks keep polling for seconds of wall-clock time without any frame, API event or virtual-time step (livelock, e.g. a serve loop retrying a failing receive) is a violation (C19:server-spins); a cut connection must fail its pending calls and leave the server serving; an abandoned #[no_cancel] mutation that started must be in the final value; a fresh &mut call afterwards must be served (lock released, server not wedged); failing calls must fail only themselves: the next call on the same client and serve() must go on. The oversize-reply case is attributed to the known finding only by its exact signature.".into(),
        assumptions: vec!["checkpoints are virtual-time sleeps inside the served methods".into()],
        exhaustive: false,
        min_nontrivial: ctx.tier.pick(300, 3000),
        extra: BTreeMap::new(),
    };
    finish(ctx, agg, rep)
}
