pub mod c01;
pub mod common;

use crate::evidence::Ctx;

pub fn dispatch(ctx: &Ctx) -> Option<i32> {
    Some(match ctx.id {
        "C01" => c01_check(ctx),
        _ => return None,
    })
}

pub const IDS: [&str; 20] = [
    "C01", "C02", "C03", "C04", "C05", "C06", "C07", "C08", "C09", "C10", "C11", "C12", "C13", "C14", "C15", "C16", "C17",
    "C18", "C19", "C20",
];

use crate::evidence::{Report, finish, shard_runs};
use std::{collections::BTreeMap, sync::Arc, time::Duration};

fn c01_check(ctx: &Ctx) -> i32 {
    let n = ctx.tier.pick(20_000, 1_500_000);
    let budget = Duration::from_secs(ctx.tier.pick(40, 420));
    let opts = Arc::new(c01::Opts { cancel_pct: 20, allow_ports: true, max_ops: 8 });
    let o2 = opts.clone();
    let agg = shard_runs(ctx, "main", n, budget, Duration::from_secs(60), Arc::new(move |run, seed| c01::run_one(run, seed, &o2)));
    let rep = Report {
        level: "exploration",
        rule: "one case = one seeded run (Cfg pair, 1-3 ports, per-direction op scripts over send/try_send/send_chunks/cancelled sends/port batches, receiver mode, network schedule, H1 deferral). Non-trivial iff the wire carried >=1 multi-chunk message and (a send was cancelled, or >=2 ports were interleaved, or credit exhaustion was reached). Distinct by hash(cfg classes, op shapes, receiver modes, interleaving signature of the wire trace).".into(),
        explanation: "Every received event sequence was compared byte-for-byte with the sequence of completed sends of its port direction (prefix while running, equality after end-of-stream); wire invariants W1-W9 ran on every frame.".into(),
        assumptions: vec![
            "the transport is ordered and reliable (simnet never reorders within a direction)".into(),
            "tokio current_thread runtime with paused clock; schedules are those produced by simnet delays, H1 deferral and tokio's seeded select".into(),
        ],
        exhaustive: false,
        min_nontrivial: ctx.tier.pick(200, 2000),
        extra: BTreeMap::new(),
    };
    finish(ctx, agg, rep)
}
