pub mod c01;
pub mod c02;
pub mod c03;
pub mod common;

use crate::evidence::Ctx;

pub fn dispatch(ctx: &Ctx) -> Option<i32> {
    Some(match ctx.id {
        "C01" => c01_check(ctx),
        "C02" => c02_check(ctx),
        "C03" => c03_check(ctx),
        _ => return None,
    })
}

pub const IDS: [&str; 20] = [
    "C01", "C02", "C03", "C04", "C05", "C06", "C07", "C08", "C09", "C10", "C11", "C12", "C13", "C14", "C15", "C16", "C17",
    "C18", "C19", "C20",
];

use crate::evidence::{Report, finish, shard_runs};
use std::{collections::BTreeMap, sync::Arc, time::Duration};

fn c01_check(ctx: &Ctx) -> i32 {
    let n = ctx.tier.pick(20_000, 1_500_000);
    let budget = Duration::from_secs(ctx.tier.pick(40, 420));
    let opts = Arc::new(c01::Opts { prop: "C01", cancel_pct: 20, allow_ports: true, max_ops: 8, stalls: false, pending_violation: false });
    let o2 = opts.clone();
    let agg = shard_runs(ctx, "main", n, budget, Duration::from_secs(60), Arc::new(move |run, seed| c01::run_one(run, seed, &o2)));
    let rep = Report {
        level: "exploration",
        rule: "one case = one seeded run (Cfg pair, 1-3 ports, per-direction op scripts over send/try_send/send_chunks/cancelled sends/port batches, receiver mode, network schedule, H1 deferral). Non-trivial iff the wire carried >=1 multi-chunk message and (a send was cancelled, or >=2 ports were interleaved, or credit exhaustion was reached). Distinct by hash(cfg classes, op shapes, receiver modes, interleaving signature of the wire trace).".into(),
        explanation: "Every received event sequence was compared byte-for-byte with the sequence of completed sends of its port direction (prefix while running, equality after end-of-stream); wire invariants W1-W9 ran on every frame.".into(),
        assumptions: vec![
            "the transport is ordered and reliable (simnet never reorders within a direction)".into(),
            "tokio current_thread runtime with paused clock; schedules are those produced by simnet delays, H1 deferral and tokio's seeded select".into(),
        ],
        exhaustive: false,
        min_nontrivial: ctx.tier.pick(200, 2000),
        extra: BTreeMap::new(),
    };
    finish(ctx, agg, rep)
}

fn c02_check(ctx: &Ctx) -> i32 {
    let budget = Duration::from_secs(ctx.tier.pick(20, 200));
    let opts = Arc::new(c01::Opts { prop: "C02", cancel_pct: 25, allow_ports: true, max_ops: 8, stalls: true, pending_violation: false });
    let mut agg = shard_runs(ctx, "mix", ctx.tier.pick(8_000, 800_000), budget, Duration::from_secs(60), Arc::new(move |run, seed| c01::run_one(run, seed, &opts)));
    let agg2 = shard_runs(ctx, "window", ctx.tier.pick(8_000, 800_000), budget, Duration::from_secs(60), Arc::new(c02::run_one));
    agg.merge(agg2);
    let full = agg.counter("runs_reaching_full_window");
    let mut extra = BTreeMap::new();
    extra.insert("w3_evaluations".into(), serde_json::json!(agg.counter("w3_evals")));
    extra.insert("w4_evaluations".into(), serde_json::json!(agg.counter("w4_evals")));
    extra.insert("max_outstanding_over_limit_permille".into(), serde_json::json!(agg.maxv("max_w3_ratio_permille")));
    let mut rep = Report {
        level: "exploration",
        rule: "one case = one seeded run; phase 'mix' = C01-style traffic with cancellations and transport stalls, phase 'window' = one port driven into the credit limit (credit direction starved until quiescence / receiver never polled / port batches / empty messages / cancelled history). Non-trivial iff W3 was evaluated with outstanding >= 50% of the peer's buffer (window phase) or the C01 rule (mix phase). Distinct by hash(cfg classes, variant, sizes, interleaving signature).".into(),
        explanation: "W2 (chunk size), W3 (outstanding <= advertised receive buffer, with credits counted from the moment the credit frame was handed to the sender) and W4 (credits granted <= cost handed to the granting endpoint) were evaluated at every Data/PortData/PortCredits frame of every run; the maximum outstanding/limit ratio must reach 1.0 for the run set to count.".into(),
        assumptions: vec!["transport ordered and reliable".into(), "reference decoder (harness/src/refcodec.rs) states the wire format".into()],
        exhaustive: false,
        min_nontrivial: ctx.tier.pick(200, 2000),
        extra,
    };
    if full == 0 || agg.maxv("max_w3_ratio_permille") < 1000 {
        rep.min_nontrivial = u64::MAX; // trivial run set: the window was never filled
    }
    finish(ctx, agg, rep)
}

fn c03_check(ctx: &Ctx) -> i32 {
    let budget = Duration::from_secs(ctx.tier.pick(20, 200));
    let opts = Arc::new(c01::Opts { prop: "C03", cancel_pct: 35, allow_ports: true, max_ops: 8, stalls: true, pending_violation: true });
    let mut agg = shard_runs(ctx, "mix", ctx.tier.pick(8_000, 800_000), budget, Duration::from_secs(60), Arc::new(move |run, seed| c01::run_one(run, seed, &opts)));
    let agg2 = shard_runs(ctx, "scen", ctx.tier.pick(8_000, 800_000), budget, Duration::from_secs(60), Arc::new(c03::run_one));
    agg.merge(agg2);
    let rep = Report {
        level: "exploration",
        rule: "one case = one seeded run; phase 'mix' = C01-style traffic with 35% cancelled sends, try_send and transport stalls where every receiver consumes; phase 'scen' = connect(k ports) with left-over credits in 4..12 byte buffers / port blocking with queues of length 1 / exhaust-then-cancel behind a stalled transport followed by a full-window probe. Distinct by hash(cfg classes, variant, parameters, interleaving signature); every scen run is non-trivial, mix runs by the C01 rule.".into(),
        explanation: "Liveness is judged only at quiescence of a healthy, fully released network under the virtual clock: every send/connect whose receiver consumed everything must have completed; any PortData frame with zero ports is a zero-progress frame.".into(),
        assumptions: vec!["quiescence = progress counter unchanged across a virtual 1 ms sleep on a paused current_thread runtime".into()],
        exhaustive: false,
        min_nontrivial: ctx.tier.pick(200, 2000),
        extra: BTreeMap::new(),
    };
    finish(ctx, agg, rep)
}
