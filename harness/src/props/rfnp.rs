//! C12, remote functions: every call of an RFn / RFnMut / RFnOnce completes with exactly one outcome; a
//! returned result is the result of exactly one run with the arguments passed; a call error means at most one
//! run. Calls whose request cannot be transmitted (argument fails to serialize, provider gone, connection cut)
//! must end with an error instead of staying pending.

use remoc::rfn::{CallError, RFn, RFnMut, RFnOnce};
use serde::{Deserialize, Serialize};
use serde_json::json;
use std::{
    sync::{
        Arc, Mutex,
        atomic::{AtomicU64, Ordering},
    },
    time::Duration,
};

use super::{common::*, rig::*};
use crate::{
    clock::{run_virtual, settle},
    evidence::RunOut,
    rng::{Fnv, Rng},
    sched::{CancelAt, install_h1, uninstall_h1},
    simnet::{Dir, Fault, FaultKind},
};

type Ret = Result<(u64, u64, u64), CallError>;
type F3 = RFn<(u64, Item, u32), Ret>;
type M3 = RFnMut<(u64, Item, u32), Ret>;
type O3 = RFnOnce<(u64, Item, u32), Ret>;

#[derive(Serialize, Deserialize)]
pub enum FShip {
    F(F3),
    M(M3),
    O(O3),
}

#[derive(Clone, Copy, Debug, PartialEq, Eq)]
pub enum Kind {
    Const,
    Mut,
    Once,
}

#[derive(Clone, Copy, Debug, PartialEq, Eq)]
pub enum ProviderFate {
    Keep,
    /// provider dropped before the first call
    DropBefore,
    /// provider dropped after this many ms of virtual time
    DropAfter(u64),
}

#[derive(Clone, Debug)]
pub struct FCall {
    pub id: u64,
    pub steps: u32,
    pub poison: bool,
    pub len: usize,
    pub cancel: Option<u32>,
}

#[derive(Clone, Debug, Default)]
pub struct FRec {
    pub id: u64,
    pub caller: usize,
    pub poison: bool,
    pub data_hash: u64,
    pub call: u64,
    pub ret: Option<u64>,
    pub result: Option<Result<(u64, u64, u64), String>>,
    pub cancelled: bool,
    pub ck_at_drop: Option<usize>,
}

#[derive(Clone, Debug, PartialEq, Eq)]
enum Ev {
    Started(u64, u64),
    Checkpoint(u64),
    Finished(u64),
    Overlap(u64),
}

struct ActiveGuard(Arc<AtomicU64>);
impl Drop for ActiveGuard {
    fn drop(&mut self) {
        self.0.fetch_sub(1, Ordering::SeqCst);
    }
}

fn hash_bytes(b: &[u8]) -> u64 {
    let mut h = Fnv::new();
    h.add(b);
    h.get()
}

/// The function body: read the value, suspend `steps` times, write value | bit.
async fn body(log: Arc<Mutex<Vec<Ev>>>, value: Arc<Mutex<u64>>, active: Arc<AtomicU64>, exclusive: bool, id: u64, item: Item, steps: u32) -> Ret {
    let h = hash_bytes(&item.data) ^ item.id;
    log.lock().unwrap().push(Ev::Started(id, h));
    let n = active.fetch_add(1, Ordering::SeqCst);
    let _g = ActiveGuard(active.clone());
    if exclusive && n > 0 {
        log.lock().unwrap().push(Ev::Overlap(id));
    }
    let v = *value.lock().unwrap();
    for _ in 0..steps {
        tokio::time::sleep(Duration::from_millis(1)).await;
        log.lock().unwrap().push(Ev::Checkpoint(id));
        crate::simnet::bump_progress();
    }
    let bit = 1u64 << (id % 64);
    let nv = if exclusive {
        *value.lock().unwrap() = v | bit;
        v | bit
    } else {
        let mut g = value.lock().unwrap();
        *g |= bit;
        *g
    };
    log.lock().unwrap().push(Ev::Finished(id));
    Ok((nv, id, h))
}

enum Callee {
    F(F3),
    M(M3),
    O(Option<O3>),
}

async fn caller_task(cid: usize, mut callee: Callee, script: Vec<FCall>, clock: Arc<AtomicU64>, recs: Arc<Mutex<Vec<FRec>>>, log: Arc<Mutex<Vec<Ev>>>) {
    for c in script {
        crate::simnet::bump_progress();
        let item = if c.poison { Item::poisoned(c.id, c.len) } else { Item::new(c.id, c.len) };
        let idx = {
            let mut g = recs.lock().unwrap();
            g.push(FRec { id: c.id, caller: cid, poison: c.poison, data_hash: hash_bytes(&item.data) ^ item.id, call: clock.fetch_add(1, Ordering::SeqCst) + 1, ..Default::default() });
            g.len() - 1
        };
        let r: Option<Ret> = match &mut callee {
            Callee::F(f) => match c.cancel {
                Some(p) => CancelAt::new(f.call(c.id, item, c.steps), p).await,
                None => Some(f.call(c.id, item, c.steps).await),
            },
            Callee::M(f) => match c.cancel {
                Some(p) => CancelAt::new(f.call(c.id, item, c.steps), p).await,
                None => Some(f.call(c.id, item, c.steps).await),
            },
            Callee::O(f) => {
                let Some(f) = f.take() else { break };
                match c.cancel {
                    Some(p) => CancelAt::new(f.call(c.id, item, c.steps), p).await,
                    None => Some(f.call(c.id, item, c.steps).await),
                }
            }
        };
        let ck = log.lock().unwrap().iter().filter(|e| **e == Ev::Checkpoint(c.id)).count();
        let mut g = recs.lock().unwrap();
        g[idx].ret = Some(clock.fetch_add(1, Ordering::SeqCst) + 1);
        match r {
            Some(Ok(v)) => g[idx].result = Some(Ok(v)),
            Some(Err(e)) => g[idx].result = Some(Err(format!("{e:?}"))),
            None => {
                g[idx].cancelled = true;
                g[idx].ck_at_drop = Some(ck);
            }
        }
    }
}

pub fn run_one(run: u64, seed: u64) -> RunOut {
    let prop = "C12";
    let mut rng = Rng::new(seed ^ 0xf00d);
    let kind = *rng.pick(&[Kind::Const, Kind::Const, Kind::Mut, Kind::Mut, Kind::Once]);
    let remote = !rng.chance(15);
    let after = rng.below(6);
    let fate = *rng.pick(&[ProviderFate::Keep, ProviderFate::Keep, ProviderFate::Keep, ProviderFate::DropBefore, ProviderFate::DropAfter(after)]);
    let n_callers = if kind == Kind::Const { 1 + rng.usize_below(3) } else { 1 };
    let mut next = 0u64;
    let scripts: Vec<Vec<FCall>> = (0..n_callers)
        .map(|_| {
            let n = if kind == Kind::Once { 1 } else { 1 + rng.usize_below(5) };
            (0..n)
                .map(|_| {
                    next += 1;
                    FCall {
                        id: next,
                        steps: rng.below(4) as u32,
                        // an argument that cannot be serialized only matters when the function is used remotely
                        poison: remote && rng.chance(20),
                        len: *rng.pick(&[0usize, 10, 100, 700, 5_000]),
                        cancel: rng.chance(15).then(|| rng.below(10) as u32),
                    }
                })
                .collect()
        })
        .collect();
    let cut: Option<(FaultKind, bool, usize)> = (remote && rng.chance(25)).then(|| (*rng.pick(&[FaultKind::SinkError, FaultKind::StreamError, FaultKind::Eof]), rng.chance(50), rng.usize_below(40)));
    let cfg_a = rch_cfg(&mut rng);
    let cfg_b = rch_cfg(&mut rng);
    let netcfg = draw_netcfg(&mut rng);
    let h1 = *rng.pick(&[0u64, 0, 20, 50]);
    let replay = json!({"run": run, "seed": seed, "scenario": "rfn", "kind": format!("{kind:?}"), "remote": remote, "provider": format!("{fate:?}"), "connection_cut": format!("{cut:?}"),
        "cfg_a": cfg_json(&cfg_a), "cfg_b": cfg_json(&cfg_b), "net": netcfg_class(&netcfg), "h1_pct": h1,
        "scripts": scripts.iter().map(|s| s.iter().map(|c| format!("{c:?}")).collect::<Vec<_>>()).collect::<Vec<_>>()});
    let mut out = RunOut::default();
    let panics0 = crate::mem::panic_count();
    let prefix = crate::clock::thread_prefix();
    install_h1(rng.fork(1), h1, 0);
    let recs: Arc<Mutex<Vec<FRec>>> = Arc::new(Mutex::new(Vec::new()));
    let res: Result<(), String> = run_virtual(seed, async {
        let log: Arc<Mutex<Vec<Ev>>> = Arc::new(Mutex::new(Vec::new()));
        let value = Arc::new(Mutex::new(0u64));
        let active = Arc::new(AtomicU64::new(0));
        let clock = Arc::new(AtomicU64::new(0));
        let (l, v, a) = (log.clone(), value.clone(), active.clone());
        let mut keep: Vec<Box<dyn std::any::Any + Send>> = Vec::new();
        let (ship, provider): (FShip, Box<dyn std::any::Any + Send>) = match kind {
            Kind::Const => {
                let (f, p) = F3::provided_3(move |id, item, steps| body(l.clone(), v.clone(), a.clone(), false, id, item, steps));
                (FShip::F(f), Box::new(p))
            }
            Kind::Mut => {
                let (f, p) = M3::provided_3(move |id, item, steps| body(l.clone(), v.clone(), a.clone(), true, id, item, steps));
                (FShip::M(f), Box::new(p))
            }
            Kind::Once => {
                let (f, p) = O3::provided_3(move |id, item, steps| body(l.clone(), v.clone(), a.clone(), true, id, item, steps));
                (FShip::O(f), Box::new(p))
            }
        };
        let mut provider = Some(provider);
        let mut net0 = None;
        let ship = if remote {
            let (net, a, b, sched) = connect_rch_hetero::<FShip, (), (), FShip>(cfg_a.clone(), cfg_b.clone(), netcfg.clone(), &mut rng).await?;
            let RchEnd { mut tx, rx: rxa, conn: ca } = a;
            let RchEnd { tx: txb, mut rx, conn: cb } = b;
            let (sr, rr) = tokio::join!(tx.send(ship), rx.recv());
            sr.map_err(|e| format!("shipping the function: {e}"))?;
            let Ok(Some(s)) = rr else { return Err("function did not arrive".into()) };
            if let Some((kind, ab, after)) = cut {
                let (pa, pb) = net.put_counts();
                net.set_fault(Fault { dir: if ab { Dir::AB } else { Dir::BA }, at: if ab { pa } else { pb } + after, kind });
            }
            net0 = Some(net);
            keep.push(Box::new((tx, rxa, ca, txb, rx, cb, sched)));
            s
        } else {
            ship
        };
        if fate == ProviderFate::DropBefore {
            provider = None;
            settle().await;
        }
        let mut tasks = Vec::new();
        match ship {
            FShip::F(f) => {
                for (i, s) in scripts.iter().enumerate() {
                    tasks.push(crate::sched::spawn(caller_task(i, Callee::F(f.clone()), s.clone(), clock.clone(), recs.clone(), log.clone())));
                }
            }
            FShip::M(f) => tasks.push(crate::sched::spawn(caller_task(0, Callee::M(f), scripts[0].clone(), clock.clone(), recs.clone(), log.clone()))),
            FShip::O(f) => tasks.push(crate::sched::spawn(caller_task(0, Callee::O(Some(f)), scripts[0].clone(), clock.clone(), recs.clone(), log.clone()))),
        }
        if let ProviderFate::DropAfter(ms) = fate {
            tokio::time::sleep(Duration::from_millis(ms)).await;
            provider = None;
            crate::simnet::bump_progress();
        }
        for _ in 0..200 {
            settle().await;
            if tasks.iter().all(|t| t.is_finished()) {
                break;
            }
            tokio::time::sleep(Duration::from_millis(3)).await;
        }
        settle().await;
        tokio::time::sleep(Duration::from_millis(20)).await;
        settle().await;
        let all_done = tasks.iter().all(|t| t.is_finished());
        let rs = recs.lock().unwrap().clone();
        let lg = log.lock().unwrap().clone();
        let fv = *value.lock().unwrap();
        let mut bad: Vec<(String, String)> = Vec::new();
        if !all_done {
            let pending: Vec<String> = rs.iter().filter(|c| c.ret.is_none()).map(|c| format!("#{} poison={}", c.id, c.poison)).collect();
            bad.push(("C12:rfn-call-pending-at-quiescence".into(), format!("calls {pending:?} of a remote function ({kind:?}, provider {fate:?}, cut fired={}) have no outcome at quiescence", net0.as_ref().map(|n| n.fault_fired()).unwrap_or(false))));
        }
        let mut total_started = 0;
        for c in &rs {
            let started: Vec<u64> = lg.iter().filter_map(|e| if let Ev::Started(i, h) = e { (*i == c.id).then_some(*h) } else { None }).collect();
            let finished = lg.iter().filter(|e| **e == Ev::Finished(c.id)).count();
            total_started += started.len();
            match &c.result {
                Some(Ok((v, echo, h))) => {
                    if started.len() != 1 || finished != 1 {
                        bad.push(("C12:execution-count".into(), format!("rfn call {} returned the function's result but the function started {} and finished {finished} times for it", c.id, started.len())));
                    }
                    if *echo != c.id || *h != c.data_hash || started.first() != Some(&c.data_hash) {
                        bad.push(("C12:answer-of-another-call".into(), format!("rfn call {} received (echo {echo}, argument hash {h:#x}); sent argument hash {:#x}; the run saw {:?}", c.id, c.data_hash, started)));
                    }
                    if v & (1 << (c.id % 64)) == 0 {
                        bad.push(("C12:own-update-missing".into(), format!("rfn call {} returned value {v:#x} without its own contribution", c.id)));
                    }
                    if c.poison {
                        bad.push(("C12:rfn-unsent-call-executed".into(), format!("rfn call {} whose argument cannot be serialized returned Ok", c.id)));
                    }
                }
                _ => {
                    if started.len() > 1 {
                        bad.push(("C12:execution-count".into(), format!("rfn call {} ran {} times", c.id, started.len())));
                    }
                    if started.iter().any(|h| *h != c.data_hash) {
                        bad.push(("C12:answer-of-another-call".into(), format!("rfn call {} ran with an argument that was not the one passed", c.id)));
                    }
                    if c.poison && !started.is_empty() {
                        bad.push(("C12:rfn-unsent-call-executed".into(), format!("rfn call {} whose argument cannot be serialized was executed", c.id)));
                    }
                }
            }
            if fate == ProviderFate::DropBefore && !started.is_empty() {
                bad.push(("C12:rfn-ran-after-provider-dropped".into(), format!("rfn call {} was executed although the provider had been dropped before the call", c.id)));
            }
        }
        if kind != Kind::Const {
            if let Some(Ev::Overlap(i)) = lg.iter().find(|e| matches!(e, Ev::Overlap(_))) {
                bad.push(("C12:rfnmut-overlapping-executions".into(), format!("execution of call {i} of an {kind:?} function started while another execution was active")));
            }
            // sequential caller, exclusive executions: the returned sets form a chain in call order
            let oks: Vec<(u64, u64)> = rs.iter().filter_map(|c| c.result.as_ref().and_then(|r| r.as_ref().ok()).map(|r| (c.id, r.0))).collect();
            for w in oks.windows(2) {
                if w[0].1 & !w[1].1 != 0 {
                    bad.push(("C12:not-linearizable".into(), format!("rfn call {} returned {:#x} after call {} had returned {:#x}: a completed update was lost", w[1].0, w[1].1, w[0].0, w[0].1)));
                }
            }
        }
        if kind == Kind::Once && total_started > 1 {
            bad.push(("C12:execution-count".into(), format!("an RFnOnce ran {total_started} times")));
        }
        for c in rs.iter().filter(|c| matches!(c.result, Some(Ok(_)))) {
            if fv & (1 << (c.id % 64)) == 0 {
                bad.push(("C12:acknowledged-update-lost".into(), format!("rfn call {} returned Ok but its contribution is missing from the final value {fv:#x}", c.id)));
            }
        }
        let mut seen = std::collections::BTreeSet::new();
        for (sig, d) in bad.into_iter().filter(|b| seen.insert(b.0.clone())).take(3) {
            let mut rp = replay.clone();
            rp["calls"] = json!(rs.iter().map(|c| format!("#{} caller{} poison={} call={} ret={:?} result={:?} cancelled={}", c.id, c.caller, c.poison, c.call, c.ret, c.result, c.cancelled)).collect::<Vec<_>>());
            rp["exec_log"] = json!(lg.iter().map(|e| format!("{e:?}")).collect::<Vec<_>>());
            if let Some(n) = &net0 {
                rp["trace_tail"] = n.trace_json(20);
            }
            out.viol(sig, d, rp);
        }
        out.count("rfn_calls", rs.len() as u64);
        out.count("rfn_calls_ok", rs.iter().filter(|c| matches!(c.result, Some(Ok(_)))).count() as u64);
        out.count("rfn_calls_failed", rs.iter().filter(|c| matches!(c.result, Some(Err(_)))).count() as u64);
        out.count("rfn_calls_unsendable", rs.iter().filter(|c| c.poison).count() as u64);
        out.count("rfn_calls_cancelled", rs.iter().filter(|c| c.cancelled).count() as u64);
        out.count("rfn_connection_cuts", net0.as_ref().map(|n| n.fault_fired() as u64).unwrap_or(0));
        out.item("rfn_kinds", format!("{kind:?}/{}/{}", if remote { "remote" } else { "local" }, match fate { ProviderFate::Keep => "kept", ProviderFate::DropBefore => "provider-dropped-before", ProviderFate::DropAfter(_) => "provider-dropped-during" }));
        for c in rs.iter().filter_map(|c| c.result.as_ref().and_then(|r| r.as_ref().err())) {
            out.item("rfn_error_kinds", c.split('(').next().unwrap_or("").to_string());
        }
        if rs.len() >= 2 || rs.iter().any(|c| c.poison || c.cancelled) || fate != ProviderFate::Keep {
            let mut hh = Fnv::new();
            hh.add_str(&format!("{kind:?}{remote}{fate:?}"));
            for c in &rs {
                hh.add_str(&format!("{}{}{}{:?}{}", c.caller, c.poison, c.call, c.ret, c.cancelled));
            }
            out.case_hash = Some(hh.get());
        }
        if let Some(n) = &net0 {
            if cut.is_none() {
                wire_violations_to(&mut out, n, prop, &replay);
            }
        }
        drop(provider);
        drop(keep);
        Ok(())
    });
    uninstall_h1();
    if let Err(e) = res {
        out.inconclusive = Some(e);
    }
    if run < 3 {
        out.sample = Some(json!({"plan": replay, "calls": recs.lock().unwrap().iter().map(|c| format!("#{} caller{} poison={} result={:?} cancelled={}", c.id, c.caller, c.poison, c.result, c.cancelled)).collect::<Vec<_>>()}));
    }
    for p in crate::mem::panics_since(&prefix, panics0) {
        out.viol(format!("{prop}:panic"), format!("panic at {}: {}", p.location, p.message), replay.clone());
    }
    out
}
