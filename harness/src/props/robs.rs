//! C13 (a mirror equals the collection) and C14 (mirrors and subscriptions never diverge silently).

use remoc::robs::{
    RecvError,
    hash_map::{HashMapEvent, HashMapSubscription, ObservableHashMap},
    hash_set::{HashSetEvent, HashSetSubscription, ObservableHashSet},
    list::{ListSubscription, ObservableList},
    vec::{ObservableVec, VecEvent, VecSubscription},
    vec_deque::{ObservableVecDeque, VecDequeEvent, VecDequeSubscription},
};
use serde_json::json;
use std::collections::{HashMap, HashSet, VecDeque};

use super::{common::*, rig::*};
use crate::{
    clock::{or_quiescent, run_virtual, settle},
    evidence::RunOut,
    rng::{Fnv, Rng},
    sched::{install_h1, uninstall_h1},
    simnet::{Dir, Fault, FaultKind},
};

const BIG: usize = 1 << 14;

/// Result of applying one random operation to an observable.
pub struct OpInfo {
    pub desc: String,
    /// hash_map only: a retained value was mutated inside retain() (known finding: no Set is emitted)
    pub retain_mutated: bool,
}

// ---------------------------------------------------------------------------------------------------
// per-collection operation generators (the whole mutating API) and independent event appliers
// ---------------------------------------------------------------------------------------------------

fn val(rng: &mut Rng) -> u32 {
    rng.below(1000) as u32
}

pub fn vec_op(rng: &mut Rng, o: &mut ObservableVec<u32>) -> OpInfo {
    let len = o.len();
    let d = match rng.below(20) {
        0 | 1 | 2 => {
            let v = val(rng);
            o.push(v);
            format!("push({v})")
        }
        3 => format!("pop()={:?}", o.pop()),
        4 => {
            let i = rng.usize_below(len + 1);
            let v = val(rng);
            o.insert(i, v);
            format!("insert({i},{v})")
        }
        5 if len > 0 => {
            let i = rng.usize_below(len);
            format!("remove({i})={}", o.remove(i))
        }
        6 if len > 0 => {
            let i = rng.usize_below(len);
            format!("swap_remove({i})={}", o.swap_remove(i))
        }
        7 => {
            let i = rng.usize_below(len + 2);
            let m = rng.chance(70);
            let v = val(rng);
            match o.get_mut(i) {
                Some(mut r) => {
                    if m {
                        *r = v;
                    }
                    format!("get_mut({i}){}", if m { format!("={v}") } else { " (no write)".into() })
                }
                None => format!("get_mut({i})=None"),
            }
        }
        8 => {
            let stride = 1 + rng.usize_below(3);
            let add = val(rng);
            let rev = rng.chance(30);
            let mut n = 0;
            if rev {
                for (k, mut r) in o.iter_mut().rev().enumerate() {
                    if k % stride == 0 {
                        *r = r.wrapping_add(add);
                        n += 1;
                    }
                }
            } else {
                for (k, mut r) in o.iter_mut().enumerate() {
                    if k % stride == 0 {
                        *r = r.wrapping_add(add);
                        n += 1;
                    }
                }
            }
            format!("iter_mut(stride {stride}, rev {rev}) wrote {n}")
        }
        9 => {
            let v = val(rng);
            o.fill(v);
            format!("fill({v})")
        }
        10 => {
            let n = rng.usize_below(len + 4);
            let v = val(rng);
            o.resize(n, v);
            format!("resize({n},{v})")
        }
        11 => {
            let n = rng.usize_below(len + 2);
            o.truncate(n);
            format!("truncate({n})")
        }
        12 if rng.chance(20) => {
            o.clear();
            "clear()".into()
        }
        13 | 14 => {
            let m = 2 + rng.below(3) as u32;
            let keep = rng.chance(50);
            o.retain(|v| (v % m == 0) == keep);
            format!("retain(v%{m}==0 is {keep})")
        }
        15 => {
            o.shrink_to_fit();
            "shrink_to_fit()".into()
        }
        16 => {
            let n = rng.usize_below(4);
            let vs: Vec<u32> = (0..n).map(|_| val(rng)).collect();
            o.extend(vs.clone());
            format!("extend({vs:?})")
        }
        _ => {
            let v = val(rng);
            o.push(v);
            format!("push({v})")
        }
    };
    OpInfo { desc: d, retain_mutated: false }
}

/// Independent applier of vector events. Returns Ok(true) when Done was seen.
pub fn vec_apply(s: &mut Vec<u32>, e: VecEvent<u32>) -> Result<bool, String> {
    match e {
        VecEvent::Push(v) => s.push(v),
        VecEvent::Pop => {
            s.pop();
        }
        VecEvent::Insert(i, v) => {
            if i > s.len() {
                return Err(format!("Insert({i}) beyond len {}", s.len()));
            }
            s.insert(i, v)
        }
        VecEvent::Set(i, v) => {
            if i >= s.len() {
                return Err(format!("Set({i}) beyond len {}", s.len()));
            }
            s[i] = v
        }
        VecEvent::Remove(i) => {
            if i >= s.len() {
                return Err(format!("Remove({i}) beyond len {}", s.len()));
            }
            s.remove(i);
        }
        VecEvent::SwapRemove(i) => {
            if i >= s.len() {
                return Err(format!("SwapRemove({i}) beyond len {}", s.len()));
            }
            let last = s.len() - 1;
            s.swap(i, last);
            s.pop();
        }
        VecEvent::Fill(v) => {
            for x in s.iter_mut() {
                *x = v;
            }
        }
        VecEvent::Resize(n, v) => {
            while s.len() > n {
                s.pop();
            }
            while s.len() < n {
                s.push(v);
            }
        }
        VecEvent::Truncate(n) => {
            while s.len() > n {
                s.pop();
            }
        }
        VecEvent::Retain(keep) => {
            let old = std::mem::take(s);
            *s = old.into_iter().enumerate().filter(|(i, _)| keep.contains(i)).map(|(_, v)| v).collect();
        }
        VecEvent::RetainNot(drop_) => {
            let old = std::mem::take(s);
            *s = old.into_iter().enumerate().filter(|(i, _)| !drop_.contains(i)).map(|(_, v)| v).collect();
        }
        VecEvent::Clear => s.clear(),
        VecEvent::ShrinkToFit => {}
        VecEvent::Done => return Ok(true),
        VecEvent::InitialComplete => {}
    }
    Ok(false)
}

pub fn deque_op(rng: &mut Rng, o: &mut ObservableVecDeque<u32>) -> OpInfo {
    let len = o.len();
    let d = match rng.below(22) {
        0 | 1 => {
            let v = val(rng);
            o.push_back(v);
            format!("push_back({v})")
        }
        2 | 3 => {
            let v = val(rng);
            o.push_front(v);
            format!("push_front({v})")
        }
        4 => format!("pop_back()={:?}", o.pop_back()),
        5 => format!("pop_front()={:?}", o.pop_front()),
        6 => {
            let i = rng.usize_below(len + 1);
            let v = val(rng);
            o.insert(i, v);
            format!("insert({i},{v})")
        }
        7 => {
            let i = rng.usize_below(len + 2);
            format!("remove({i})={:?}", o.remove(i))
        }
        8 | 9 => {
            let i = rng.usize_below(len + 2);
            format!("swap_remove_back({i})={:?}", o.swap_remove_back(i))
        }
        10 | 11 => {
            let i = rng.usize_below(len + 2);
            format!("swap_remove_front({i})={:?}", o.swap_remove_front(i))
        }
        12 => {
            let i = rng.usize_below(len + 2);
            let m = rng.chance(70);
            let v = val(rng);
            match o.get_mut(i) {
                Some(mut r) => {
                    if m {
                        *r = v;
                    }
                    format!("get_mut({i}) write={m}")
                }
                None => format!("get_mut({i})=None"),
            }
        }
        13 => {
            let stride = 1 + rng.usize_below(3);
            let add = val(rng);
            let mut n = 0;
            for (k, mut r) in o.iter_mut().enumerate() {
                if k % stride == 0 {
                    *r = r.wrapping_add(add);
                    n += 1;
                }
            }
            format!("iter_mut(stride {stride}) wrote {n}")
        }
        14 => {
            let n = rng.usize_below(len + 4);
            let v = val(rng);
            o.resize(n, v);
            format!("resize({n},{v})")
        }
        15 => {
            let n = rng.usize_below(len + 2);
            o.truncate(n);
            format!("truncate({n})")
        }
        16 if rng.chance(20) => {
            o.clear();
            "clear()".into()
        }
        17 | 18 => {
            let m = 2 + rng.below(3) as u32;
            let keep = rng.chance(50);
            o.retain(|v| (v % m == 0) == keep);
            format!("retain(v%{m}==0 is {keep})")
        }
        19 => {
            o.shrink_to_fit();
            "shrink_to_fit()".into()
        }
        20 => {
            let n = rng.usize_below(4);
            let vs: Vec<u32> = (0..n).map(|_| val(rng)).collect();
            o.extend(vs.clone());
            format!("extend({vs:?})")
        }
        _ => {
            let v = val(rng);
            o.push_back(v);
            format!("push_back({v})")
        }
    };
    OpInfo { desc: d, retain_mutated: false }
}

pub fn deque_apply(s: &mut VecDeque<u32>, e: VecDequeEvent<u32>) -> Result<bool, String> {
    match e {
        VecDequeEvent::PushBack(v) => s.push_back(v),
        VecDequeEvent::PushFront(v) => s.push_front(v),
        VecDequeEvent::PopBack => {
            s.pop_back();
        }
        VecDequeEvent::PopFront => {
            s.pop_front();
        }
        VecDequeEvent::Insert(i, v) => {
            if i > s.len() {
                return Err(format!("Insert({i}) beyond len {}", s.len()));
            }
            s.insert(i, v)
        }
        VecDequeEvent::Set(i, v) => {
            if i >= s.len() {
                return Err(format!("Set({i}) beyond len {}", s.len()));
            }
            s[i] = v
        }
        VecDequeEvent::Remove(i) => {
            if i >= s.len() {
                return Err(format!("Remove({i}) beyond len {}", s.len()));
            }
            s.remove(i);
        }
        VecDequeEvent::SwapRemoveBack(i) => {
            if i >= s.len() {
                return Err(format!("SwapRemoveBack({i}) beyond len {}", s.len()));
            }
            // element i is replaced by the last element
            let last = s.len() - 1;
            s.swap(i, last);
            s.pop_back();
        }
        VecDequeEvent::SwapRemoveFront(i) => {
            if i >= s.len() {
                return Err(format!("SwapRemoveFront({i}) beyond len {}", s.len()));
            }
            // element i is replaced by the first element
            s.swap(i, 0);
            s.pop_front();
        }
        VecDequeEvent::Resize(n, v) => {
            while s.len() > n {
                s.pop_back();
            }
            while s.len() < n {
                s.push_back(v);
            }
        }
        VecDequeEvent::Truncate(n) => {
            while s.len() > n {
                s.pop_back();
            }
        }
        VecDequeEvent::Retain(keep) => {
            let old = std::mem::take(s);
            *s = old.into_iter().enumerate().filter(|(i, _)| keep.contains(i)).map(|(_, v)| v).collect();
        }
        VecDequeEvent::RetainNot(drop_) => {
            let old = std::mem::take(s);
            *s = old.into_iter().enumerate().filter(|(i, _)| !drop_.contains(i)).map(|(_, v)| v).collect();
        }
        VecDequeEvent::Clear => s.clear(),
        VecDequeEvent::ShrinkToFit => {}
        VecDequeEvent::Done => return Ok(true),
        VecDequeEvent::InitialComplete => {}
    }
    Ok(false)
}

pub fn map_op(rng: &mut Rng, o: &mut ObservableHashMap<u8, u32>) -> OpInfo {
    use remoc::robs::hash_map::Entry;
    let key = |rng: &mut Rng| rng.below(8) as u8;
    let mut retain_mutated = false;
    let d = match rng.below(22) {
        0 | 1 | 2 => {
            let (k, v) = (key(rng), val(rng));
            format!("insert({k},{v})={:?}", o.insert(k, v))
        }
        3 | 4 => {
            let k = key(rng);
            format!("remove({k})={:?}", o.remove(&k))
        }
        5 if rng.chance(20) => {
            o.clear();
            "clear()".into()
        }
        6 | 7 => {
            let m = 2 + rng.below(3) as u32;
            o.retain(|_, v| *v % m != 0);
            format!("retain(v%{m}!=0)")
        }
        8 | 9 => {
            // retain whose closure mutates the values it keeps
            let m = 2 + rng.below(3) as u32;
            let add = 1 + val(rng);
            let mut n = 0;
            o.retain(|_, v| {
                if *v % m != 0 {
                    *v = v.wrapping_add(add);
                    n += 1;
                    true
                } else {
                    false
                }
            });
            retain_mutated = n > 0;
            format!("retain(v%{m}!=0, keeping with v+={add}) mutated {n}")
        }
        10 => {
            let (k, v) = (key(rng), val(rng));
            let mut r = o.entry(k).or_insert(v);
            if rng.chance(50) {
                *r = r.wrapping_add(1);
            }
            format!("entry({k}).or_insert({v})")
        }
        11 => {
            let (k, v) = (key(rng), val(rng));
            o.entry(k).and_modify(|x| *x = x.wrapping_mul(3)).or_insert_with(|| v);
            format!("entry({k}).and_modify(*3).or_insert_with({v})")
        }
        12 => {
            let k = key(rng);
            o.entry(k).or_insert_with_key(|k| u32::from(*k) + 500);
            format!("entry({k}).or_insert_with_key")
        }
        13 => {
            let k = key(rng);
            let _ = o.entry(k).or_default();
            format!("entry({k}).or_default()")
        }
        14 => {
            let (k, v) = (key(rng), val(rng));
            match o.entry(k) {
                Entry::Occupied(mut e) => match rng.below(5) {
                    0 => format!("occupied({k}).remove()={}", e.remove()),
                    1 => format!("occupied({k}).remove_entry()={:?}", e.remove_entry()),
                    2 => format!("occupied({k}).insert({v})={}", e.insert(v)),
                    3 => {
                        let mut r = e.get_mut();
                        *r = v;
                        format!("occupied({k}).get_mut()={v}")
                    }
                    _ => {
                        let mut r = e.into_mut();
                        if rng.chance(50) {
                            *r = v;
                        }
                        format!("occupied({k}).into_mut()")
                    }
                },
                Entry::Vacant(e) => {
                    if rng.chance(70) {
                        let mut r = e.insert(v);
                        if rng.chance(30) {
                            *r = v + 1;
                        }
                        format!("vacant({k}).insert({v})")
                    } else {
                        format!("vacant({k}).into_key()={}", e.into_key())
                    }
                }
            }
        }
        15 => {
            let k = key(rng);
            let m = rng.chance(70);
            let v = val(rng);
            match o.get_mut(&k) {
                Some(mut r) => {
                    if m {
                        *r = v;
                    }
                    format!("get_mut({k}) write={m}")
                }
                None => format!("get_mut({k})=None"),
            }
        }
        16 | 17 => {
            let m = 1 + rng.below(3) as u32;
            let mut n = 0;
            for mut r in o.iter_mut() {
                if *r % (m + 1) == 0 {
                    *r = r.wrapping_add(7);
                    n += 1;
                }
            }
            format!("iter_mut wrote {n}")
        }
        18 => {
            o.shrink_to_fit();
            "shrink_to_fit()".into()
        }
        19 => {
            let n = rng.usize_below(4);
            let vs: Vec<(u8, u32)> = (0..n).map(|_| (key(rng), val(rng))).collect();
            o.extend(vs.clone());
            format!("extend({vs:?})")
        }
        _ => {
            let (k, v) = (key(rng), val(rng));
            format!("insert({k},{v})={:?}", o.insert(k, v))
        }
    };
    OpInfo { desc: d, retain_mutated }
}

pub fn map_apply(s: &mut HashMap<u8, u32>, e: HashMapEvent<u8, u32>) -> Result<bool, String> {
    match e {
        HashMapEvent::Set(k, v) => {
            s.insert(k, v);
        }
        HashMapEvent::Remove(k) => {
            s.remove(&k);
        }
        HashMapEvent::Clear => s.clear(),
        HashMapEvent::ShrinkToFit => {}
        HashMapEvent::Done => return Ok(true),
        HashMapEvent::InitialComplete => {}
    }
    Ok(false)
}

pub fn set_op(rng: &mut Rng, o: &mut ObservableHashSet<u32>) -> OpInfo {
    let key = |rng: &mut Rng| rng.below(10) as u32;
    let d = match rng.below(12) {
        0 | 1 | 2 => {
            let k = key(rng);
            format!("insert({k})={}", o.insert(k))
        }
        3 => {
            let k = key(rng);
            format!("replace({k})={:?}", o.replace(k))
        }
        4 | 5 => {
            let k = key(rng);
            format!("remove({k})={}", o.remove(&k))
        }
        6 => {
            let k = key(rng);
            format!("take({k})={:?}", o.take(&k))
        }
        7 if rng.chance(20) => {
            o.clear();
            "clear()".into()
        }
        8 => {
            let m = 2 + rng.below(3) as u32;
            o.retain(|v| v % m != 0);
            format!("retain(v%{m}!=0)")
        }
        9 => {
            o.shrink_to_fit();
            "shrink_to_fit()".into()
        }
        10 => {
            let n = rng.usize_below(4);
            let vs: Vec<u32> = (0..n).map(|_| key(rng)).collect();
            o.extend(vs.clone());
            format!("extend({vs:?})")
        }
        _ => {
            let k = key(rng);
            format!("insert({k})={}", o.insert(k))
        }
    };
    OpInfo { desc: d, retain_mutated: false }
}

pub fn set_apply(s: &mut HashSet<u32>, e: HashSetEvent<u32>) -> Result<bool, String> {
    match e {
        HashSetEvent::Set(k) => {
            s.insert(k);
        }
        HashSetEvent::Remove(k) => {
            s.remove(&k);
        }
        HashSetEvent::Clear => s.clear(),
        HashSetEvent::ShrinkToFit => {}
        HashSetEvent::Done => return Ok(true),
        HashSetEvent::InitialComplete => {}
    }
    Ok(false)
}

#[derive(Clone, Copy, Debug, PartialEq, Eq)]
pub enum Locality {
    Local,
    Remote,
    Resubscribed,
}

// ---------------------------------------------------------------------------------------------------
// shared scenario bodies, instantiated per collection
// ---------------------------------------------------------------------------------------------------

macro_rules! coll_runner {
    ($c13:ident, $c14:ident, $name:expr, $Obs:ty, $Std:ty, $Sub:ty, $opfn:path, $applyfn:path, $init:expr, $growable_by_insert:expr) => {
        /// C13: one (collection, op sequence, subscription point, mode, locality) case.
        pub fn $c13(run: u64, seed: u64) -> RunOut {
            let mut rng = Rng::new(seed);
            let n_ops = 1 + rng.usize_below(60);
            let sub_point = rng.usize_below(n_ops + 1);
            let incremental = rng.chance(40);
            let locality = *rng.pick(&[Locality::Local, Locality::Local, Locality::Local, Locality::Remote, Locality::Resubscribed]);
            let call_done = rng.chance(70);
            let h1 = *rng.pick(&[0u64, 0, 20]);
            let mut out = RunOut::default();
            let panics0 = crate::mem::panic_count();
            let prefix = crate::clock::thread_prefix();
            let mut descs: Vec<String> = Vec::new();
            install_h1(rng.fork(1), h1, 0);
            let mut rng2 = rng.fork(2);
            let res: Result<(), String> = run_virtual(seed, async {
                let init: $Std = $init(&mut rng);
                let mut obs: $Obs = <$Obs>::from(init.clone());
                let mut retain_mutated = false;
                for _ in 0..sub_point {
                    let i = $opfn(&mut rng, &mut obs);
                    descs.push(i.desc);
                }
                descs.push(format!("--- subscribe (incremental={incremental}, {locality:?}) ---"));
                // the subscription under test and a reference subscription for the hand-applied event stream
                let sub: $Sub = if incremental { obs.subscribe_incremental(BIG) } else { obs.subscribe(BIG) };
                let mut ref_sub: $Sub = obs.subscribe(BIG);
                let mut hand: $Std = ref_sub.take_initial().unwrap_or_default();
                // a second hand-made replica fed by an incremental subscription whose first receive calls are dropped
                // after one poll (receiving is resumable: a dropped receive call must lose nothing)
                let mut inc_sub: $Sub = obs.subscribe_incremental(BIG);
                let mut inc_hand: $Std = Default::default();
                let mut inc_err: Option<String> = None;
                let inc_cancels = rng.below(4);
                for _ in 0..inc_cancels {
                    match crate::sched::CancelAt::new(inc_sub.recv(), 1).await {
                        Some(Ok(Some(ev))) => {
                            if let Err(e) = $applyfn(&mut inc_hand, ev) {
                                inc_err = Some(e);
                            }
                        }
                        Some(Ok(None)) => break,
                        Some(Err(e)) => {
                            inc_err = Some(e.to_string());
                            break;
                        }
                        None => {}
                    }
                }
                let mut net_keep = None;
                let mut mirror = match locality {
                    Locality::Local => sub.mirror(BIG),
                    Locality::Resubscribed => {
                        let m1 = sub.mirror(BIG);
                        let s2 = if rng.chance(50) { m1.subscribe(BIG).await } else { m1.subscribe_incremental(BIG).await };
                        let s2 = s2.map_err(|e| format!("re-subscription failed: {e}"))?;
                        let m2 = s2.mirror(BIG);
                        net_keep = Some((None, Some(m1)));
                        m2
                    }
                    Locality::Remote => {
                        let conn = connect_rch::<$Sub, ()>(rch_cfg(&mut rng2), rch_cfg(&mut rng2), draw_netcfg(&mut rng2), &mut rng2).await?;
                        let RchConn { net, a, b, sched } = conn;
                        let RchEnd { tx: mut tx_ab, rx: rx_a, conn: ca } = a;
                        let RchEnd { tx: tx_b, rx: mut rx_ab, conn: cb } = b;
                        let shipped = crate::sched::spawn(async move {
                            let r = tx_ab.send(sub).await.map_err(|e| e.to_string());
                            (r, tx_ab)
                        });
                        let got = or_quiescent(rx_ab.recv()).await;
                        let sub_b = match got {
                            Some(Ok(Some(s))) => s,
                            other => return Err(format!("subscription did not arrive: {:?}", other.map(|r| r.map(|o| o.is_some()).map_err(|e| e.to_string())))),
                        };
                        let m = sub_b.mirror(BIG);
                        net_keep = Some((Some((net, rx_a, ca, tx_b, rx_ab, cb, sched, shipped)), None));
                        m
                    }
                };
                for k in sub_point..n_ops {
                    let i = $opfn(&mut rng, &mut obs);
                    retain_mutated |= i.retain_mutated;
                    descs.push(i.desc);
                    if locality != Locality::Local && k % 7 == 3 {
                        tokio::task::yield_now().await;
                    }
                }
                if call_done {
                    obs.done();
                    descs.push("done()".into());
                }
                settle().await;
                let truth: $Std = (*obs).clone();

                // hand-applied event stream
                let mut hand_done = false;
                let mut hand_err = None;
                loop {
                    use futures::FutureExt;
                    match tokio::task::unconstrained(ref_sub.recv()).now_or_never() {
                        Some(Ok(Some(ev))) => match $applyfn(&mut hand, ev) {
                            Ok(d) => hand_done |= d,
                            Err(e) => {
                                hand_err = Some(e);
                                break;
                            }
                        },
                        Some(Ok(None)) => break,
                        Some(Err(e)) => {
                            hand_err = Some(e.to_string());
                            break;
                        }
                        None => break,
                    }
                }
                loop {
                    use futures::FutureExt;
                    if inc_err.is_some() {
                        break;
                    }
                    match tokio::task::unconstrained(inc_sub.recv()).now_or_never() {
                        Some(Ok(Some(ev))) => {
                            if let Err(e) = $applyfn(&mut inc_hand, ev) {
                                inc_err = Some(e);
                            }
                        }
                        Some(Ok(None)) => break,
                        Some(Err(e)) => inc_err = Some(e.to_string()),
                        None => break,
                    }
                }
                let mut bad: Vec<(String, String)> = Vec::new();
                if let Some(e) = &inc_err {
                    bad.push((format!("C13:{}:incremental-event-stream-error", $name), format!("consuming an incremental subscription by hand ({inc_cancels} receive calls dropped after one poll) failed: {e}")));
                } else if inc_hand != truth && !retain_mutated {
                    bad.push((format!("C13:{}:incremental-event-stream-differs", $name), format!("an incremental subscription consumed by hand ({inc_cancels} receive calls dropped after one poll) gives {inc_hand:?}, the collection holds {truth:?}")));
                }
                if let Some(e) = hand_err {
                    bad.push((format!("C13:{}:event-stream-error", $name), format!("consuming the event stream by hand failed: {e}")));
                } else if hand != truth {
                    if retain_mutated {
                        bad.push(("C13:hash_map.retain:mutated-retained-value-without-Set".into(), format!("event stream applied by hand gives {hand:?}, collection holds {truth:?} (values changed inside retain() are not reported)")));
                    } else {
                        bad.push((format!("C13:{}:event-stream-differs", $name), format!("event stream applied by hand gives {hand:?}, collection holds {truth:?}")));
                    }
                } else if hand_done != call_done {
                    bad.push((format!("C13:{}:done-flag", $name), format!("event stream reported done={hand_done}, done() called={call_done}")));
                }
                // the mirror
                match or_quiescent(mirror.borrow_and_update()).await {
                    Some(Ok(view)) => {
                        let got: $Std = (*view).clone();
                        if got != truth {
                            if retain_mutated && got == hand {
                                bad.push(("C13:hash_map.retain:mutated-retained-value-without-Set".into(), format!("mirror holds {got:?}, collection holds {truth:?}")));
                            } else {
                                bad.push((format!("C13:{}:mirror-differs", $name), format!("mirror ({locality:?}, incremental={incremental}) holds {got:?}, collection holds {truth:?}")));
                            }
                        }
                        if view.is_done() != call_done {
                            bad.push((format!("C13:{}:done-flag", $name), format!("mirror reports done={}, done() called={call_done}", view.is_done())));
                        }
                        if !view.is_complete() {
                            bad.push((format!("C13:{}:not-complete", $name), "mirror is not complete at quiescence".into()));
                        }
                    }
                    Some(Err(e)) => bad.push((format!("C13:{}:mirror-error", $name), format!("mirror reports an error on a healthy, unlagged subscription: {e}"))),
                    None => bad.push((format!("C13:{}:mirror-borrow-pending", $name), "Mirrored::borrow pending at quiescence".into())),
                }
                for (sig, d) in bad.into_iter().take(2) {
                    out.viol(sig, d, json!({"run": run, "seed": seed, "collection": $name, "ops": descs, "sub_point": sub_point, "incremental": incremental, "locality": format!("{locality:?}")}));
                }
                out.count("ops_applied", n_ops as u64);
                out.item("collections", $name);
                out.item("localities", format!("{}:{locality:?}:{}", $name, if incremental { "incremental" } else { "snapshot" }));
                if sub_point < n_ops {
                    let mut h = Fnv::new();
                    h.add_str($name);
                    for d in &descs {
                        h.add_str(d);
                    }
                    h.add_u64(incremental as u64);
                    h.add_str(&format!("{locality:?}"));
                    out.case_hash = Some(h.get());
                }
                drop(net_keep);
                Ok(())
            });
            uninstall_h1();
            if let Err(e) = res {
                out.inconclusive = Some(e);
            }
            if run < 2 {
                out.sample = Some(json!({"collection": $name, "ops": descs, "sub_point": sub_point}));
            }
            for p in crate::mem::panics_since(&prefix, panics0) {
                out.viol("C13:panic", format!("panic at {}: {}", p.location, p.message), json!({"run": run, "seed": seed, "collection": $name, "ops": descs}));
            }
            out
        }

        /// C14: lag / early drop / size limit / connection cut. A mirror may only present a state of the
        /// collection's history (never older than what it presented before), and at quiescence only the current
        /// one; otherwise it must report an error, from then on.
        pub fn $c14(run: u64, seed: u64) -> RunOut {
            let mut rng = Rng::new(seed);
            let variant = *rng.pick(&["lag", "lag", "drop", "maxsize", "maxsize", "cut"]);
            let buffer = match variant {
                "lag" => 1 + rng.usize_below(4),
                _ => BIG,
            };
            let max_size = if variant == "maxsize" { 1 + rng.usize_below(6) } else { BIG };
            let n_bursts = 1 + rng.usize_below(8);
            let incremental = rng.chance(30);
            let mut out = RunOut::default();
            let panics0 = crate::mem::panic_count();
            let prefix = crate::clock::thread_prefix();
            let mut descs: Vec<String> = Vec::new();
            install_h1(rng.fork(1), *rng.pick(&[0u64, 20]), 0);
            let mut rng2 = rng.fork(2);
            let res: Result<(), String> = run_virtual(seed, async {
                let init: $Std = $init(&mut rng);
                let mut obs: Option<$Obs> = Some(<$Obs>::from(init.clone()));
                let o = obs.as_mut().unwrap();
                let sub: $Sub = if incremental { o.subscribe_incremental(buffer) } else { o.subscribe(buffer) };
                // reference: never lagging subscription, applied by the harness
                let mut ref_sub: $Sub = o.subscribe(BIG);
                let mut cur: $Std = ref_sub.take_initial().unwrap_or_default();
                let mut states: Vec<$Std> = vec![cur.clone()];
                let mut max_len_seen = cur.len();
                let mut net_keep = None;
                let fault_at = rng2.usize_below(60);
                let mirror = if variant == "cut" {
                    let mut netcfg = draw_netcfg(&mut rng2);
                    netcfg.fault = Some(Fault { dir: if rng2.chance(70) { Dir::AB } else { Dir::BA }, at: fault_at, kind: *rng2.pick(&[FaultKind::SinkError, FaultKind::StreamError, FaultKind::Eof]) });
                    let conn = connect_rch::<$Sub, ()>(rch_cfg(&mut rng2), rch_cfg(&mut rng2), netcfg, &mut rng2).await?;
                    let RchConn { net, a, b, sched } = conn;
                    let RchEnd { tx: mut tx_ab, rx: rx_a, conn: ca } = a;
                    let RchEnd { tx: tx_b, rx: mut rx_ab, conn: cb } = b;
                    let shipped = crate::sched::spawn(async move {
                        let r = tx_ab.send(sub).await.map_err(|e| e.to_string());
                        (r, tx_ab)
                    });
                    let got = or_quiescent(rx_ab.recv()).await;
                    let sub_b = match got {
                        Some(Ok(Some(s))) => s,
                        _ => {
                            out.count("cut_before_subscription_arrived", 1);
                            return Ok(());
                        }
                    };
                    let m = sub_b.mirror(BIG);
                    net_keep = Some((net, rx_a, ca, tx_b, rx_ab, cb, sched, shipped));
                    m
                } else {
                    sub.mirror(max_size)
                };
                let mut last_idx = 0usize;
                let mut errored: Option<String> = None;
                let mut bad: Vec<(String, String)> = Vec::new();
                let drop_at = if variant == "drop" { Some(rng.usize_below(n_bursts + 1)) } else { None };
                let mut dropped = false;
                let mut done_called = false;
                for b in 0..=n_bursts {
                    if Some(b) == drop_at {
                        descs.push("--- drop the observed collection (no done) ---".into());
                        obs = None;
                        dropped = true;
                    }
                    if b < n_bursts {
                        if let Some(o) = obs.as_mut() {
                            let k = 1 + rng.usize_below(if variant == "lag" { 7 } else { 4 });
                            for _ in 0..k {
                                let i = $opfn(&mut rng, o);
                                descs.push(i.desc);
                            }
                        }
                    } else if let Some(o) = obs.as_mut() {
                        if rng.chance(50) {
                            o.done();
                            done_called = true;
                            descs.push("done()".into());
                        }
                    }
                    // bring the reference up to date (per event)
                    loop {
                        use futures::FutureExt;
                        match tokio::task::unconstrained(ref_sub.recv()).now_or_never() {
                            Some(Ok(Some(ev))) => {
                                let _ = $applyfn(&mut cur, ev);
                                max_len_seen = max_len_seen.max(cur.len());
                                states.push(cur.clone());
                            }
                            _ => break,
                        }
                    }
                    descs.push("--- checkpoint ---".into());
                    settle().await;
                    // observe the mirror
                    match or_quiescent(mirror.borrow()).await {
                        Some(Ok(view)) => {
                            let got: $Std = (*view).clone();
                            if let Some(e) = &errored {
                                bad.push((format!("C14:{}:error-forgotten", $name), format!("mirror reported {e} earlier but now presents contents again")));
                            }
                            // at quiescence every emitted event has been processed: only the current state is allowed
                            let expect = states.last().unwrap();
                            if &got != expect {
                                let older = states.iter().position(|s| s == &got);
                                bad.push((
                                    format!("C14:{}:silent-divergence", $name),
                                    format!("mirror presents {got:?} without an error at quiescence, the collection's event history is at {expect:?} (matches an older state: {older:?}, last seen index {last_idx})"),
                                ));
                            }
                            last_idx = states.len() - 1;
                            if max_len_seen > max_size && variant == "maxsize" {
                                let sig = if $growable_by_insert { "C14:max_size:not-checked-on-insert-resize".to_string() } else { format!("C14:{}:max_size-ignored", $name) };
                                bad.push((sig, format!("the mirrored collection reached {max_len_seen} elements, max_size is {max_size}, but the mirror reports no error")));
                            }
                            if dropped && !done_called {
                                bad.push((format!("C14:{}:drop-not-reported", $name), "the observed collection was dropped before done() but the mirror reports no error".into()));
                            }
                        }
                        Some(Err(e)) => {
                            let cls = match &e {
                                RecvError::Closed => "Closed",
                                RecvError::Lagged => "Lagged",
                                RecvError::MaxSizeExceeded(_) => "MaxSizeExceeded",
                                RecvError::RemoteReceive(_) => "RemoteReceive",
                                RecvError::RemoteConnect(_) => "RemoteConnect",
                                RecvError::RemoteListen(_) => "RemoteListen",
                                RecvError::InvalidIndex(_) => "InvalidIndex",
                            };
                            out.item("error_classes", format!("{variant}:{cls}"));
                            // the error must be the one that fits what happened
                            let plausible = match variant {
                                "lag" => cls == "Lagged",
                                "drop" => cls == "Closed",
                                "maxsize" => cls == "MaxSizeExceeded" && max_len_seen > max_size,
                                "cut" => cls.starts_with("Remote") || cls == "Closed",
                                _ => true,
                            };
                            if !plausible && errored.is_none() {
                                bad.push((format!("C14:{}:wrong-error", $name), format!("variant {variant}: mirror reports {e} (max len seen {max_len_seen}, max_size {max_size}, dropped {dropped})")));
                            }
                            errored = Some(e.to_string());
                        }
                        None => bad.push((format!("C14:{}:borrow-pending", $name), "Mirrored::borrow pending at quiescence".into())),
                    }
                    if !bad.is_empty() {
                        break;
                    }
                }
                // a cut connection must surface as an error at the latest now
                if variant == "cut" {
                    if let Some((net, ..)) = &net_keep {
                        if net.fault_fired() && errored.is_none() && states.len() > 1 {
                            // only a violation if the mirror cannot be up to date: checked by silent-divergence above
                            out.count("cut_fired_mirror_still_consistent", 1);
                        }
                        if net.fault_fired() {
                            out.count("cut_fired", 1);
                        }
                    }
                }
                // last consistent contents stay retrievable
                if errored.is_some() {
                    match or_quiescent(mirror.detach()).await {
                        Some(last) => {
                            // (an incremental subscription that fails during its initial transfer holds a partial
                            // initial value, which its is_complete flag marks; a size-limited mirror stops at the limit)
                            if !states.iter().any(|s| s == &last) && variant != "maxsize" && !incremental {
                                bad.push((format!("C14:{}:detach-not-a-history-state", $name), format!("detach() after an error returned {last:?}, which is no state of the collection's event history")));
                            }
                            out.count("detach_checked", 1);
                        }
                        None => bad.push((format!("C14:{}:detach-pending", $name), "detach pending at quiescence".into())),
                    }
                }
                for (sig, d) in bad.into_iter().take(2) {
                    out.viol(sig, d, json!({"run": run, "seed": seed, "collection": $name, "variant": variant, "buffer": buffer, "max_size": max_size, "incremental": incremental, "ops": descs}));
                }
                out.count("c14_checkpoints", n_bursts as u64 + 1);
                out.item("variants", format!("{}:{variant}", $name));
                if errored.is_some() {
                    out.count("runs_with_reported_error", 1);
                }
                let mut h = Fnv::new();
                h.add_str($name);
                h.add_str(variant);
                for d in &descs {
                    h.add_str(d);
                }
                h.add_u64(buffer as u64);
                h.add_u64(max_size as u64);
                out.case_hash = Some(h.get());
                drop(net_keep);
                Ok(())
            });
            uninstall_h1();
            if let Err(e) = res {
                out.inconclusive = Some(e);
            }
            if run < 2 {
                out.sample = Some(json!({"collection": $name, "variant": variant, "ops": descs}));
            }
            for p in crate::mem::panics_since(&prefix, panics0) {
                out.viol("C14:panic", format!("panic at {}: {}", p.location, p.message), json!({"run": run, "seed": seed, "collection": $name, "ops": descs}));
            }
            out
        }
    };
}

fn init_vec(rng: &mut Rng) -> Vec<u32> {
    (0..rng.usize_below(7)).map(|_| val(rng)).collect()
}
fn init_deque(rng: &mut Rng) -> VecDeque<u32> {
    (0..rng.usize_below(7)).map(|_| val(rng)).collect()
}
fn init_map(rng: &mut Rng) -> HashMap<u8, u32> {
    (0..rng.usize_below(7)).map(|_| (rng.below(8) as u8, val(rng))).collect()
}
fn init_set(rng: &mut Rng) -> HashSet<u32> {
    (0..rng.usize_below(7)).map(|_| rng.below(10) as u32).collect()
}

coll_runner!(c13_vec, c14_vec, "vec", ObservableVec<u32>, Vec<u32>, VecSubscription<u32>, vec_op, vec_apply, init_vec, true);
coll_runner!(c13_deque, c14_deque, "vec_deque", ObservableVecDeque<u32>, VecDeque<u32>, VecDequeSubscription<u32>, deque_op, deque_apply, init_deque, true);
coll_runner!(c13_map, c14_map, "hash_map", ObservableHashMap<u8, u32>, HashMap<u8, u32>, HashMapSubscription<u8, u32>, map_op, map_apply, init_map, false);
coll_runner!(c13_set, c14_set, "hash_set", ObservableHashSet<u32>, HashSet<u32>, HashSetSubscription<u32>, set_op, set_apply, init_set, false);

// ---------------------------------------------------------------------------------------------------
// append-only list
// ---------------------------------------------------------------------------------------------------

/// List: every subscriber (joining at any time, local or remote, reading slowly or not at all for long periods)
/// receives every element exactly once, in order; mirrors equal the list.
pub fn list_run(run: u64, seed: u64, c14: bool) -> RunOut {
    let mut rng = Rng::new(seed);
    let n_ops = 1 + rng.usize_below(80);
    let n_subs = 1 + rng.usize_below(4);
    let call_done = rng.chance(70);
    let remote = rng.chance(30);
    let mut out = RunOut::default();
    let panics0 = crate::mem::panic_count();
    let prefix = crate::clock::thread_prefix();
    let prop = if c14 { "C14" } else { "C13" };
    install_h1(rng.fork(1), *rng.pick(&[0u64, 20, 50]), 0);
    let mut rng2 = rng.fork(2);
    let res: Result<(), String> = run_virtual(seed, async {
        let mut list: ObservableList<u32> = ObservableList::new();
        let mut pushed: Vec<u32> = Vec::new();
        // join points of the subscribers
        let mut joins: Vec<usize> = (0..n_subs).map(|_| rng.usize_below(n_ops + 1)).collect();
        joins.sort();
        let mut readers = Vec::new();
        let mut mirrors = Vec::new();
        let mut keep = Vec::new();
        let mut next_join = 0;
        for k in 0..=n_ops {
            while next_join < joins.len() && joins[next_join] == k {
                let sub: ListSubscription<u32> = list.subscribe();
                let sub = if remote && next_join == 0 {
                    let conn = connect_rch::<ListSubscription<u32>, ()>(rch_cfg(&mut rng2), rch_cfg(&mut rng2), draw_netcfg(&mut rng2), &mut rng2).await?;
                    let RchConn { net, a, b, sched } = conn;
                    let RchEnd { tx: mut tx_ab, rx: rx_a, conn: ca } = a;
                    let RchEnd { tx: tx_b, rx: mut rx_ab, conn: cb } = b;
                    let shipped = crate::sched::spawn(async move {
                        let r = tx_ab.send(sub).await.map_err(|e| e.to_string());
                        (r, tx_ab)
                    });
                    let got = or_quiescent(rx_ab.recv()).await;
                    let s = match got {
                        Some(Ok(Some(s))) => s,
                        _ => return Err("list subscription did not arrive".into()),
                    };
                    keep.push((net, rx_a, ca, tx_b, rx_ab, cb, sched, shipped));
                    s
                } else {
                    sub
                };
                if rng.chance(30) {
                    mirrors.push((k, sub.mirror(BIG)));
                } else {
                    // slow reader: reads in bursts separated by long pauses
                    let pause = rng.below(6);
                    let burst = 1 + rng.below(5);
                    let got = std::sync::Arc::new(std::sync::Mutex::new((Vec::<u32>::new(), Option::<String>::None, false)));
                    let got2 = got.clone();
                    let mut sub = sub;
                    readers.push((k, got));
                    keep_task(&mut keep_tasks(), crate::sched::spawn(async move {
                        loop {
                            for _ in 0..burst {
                                match sub.recv_item().await {
                                    Ok(Some(v)) => got2.lock().unwrap().0.push(v),
                                    Ok(None) => {
                                        got2.lock().unwrap().2 = true;
                                        return;
                                    }
                                    Err(e) => {
                                        got2.lock().unwrap().1 = Some(e.to_string());
                                        return;
                                    }
                                }
                                crate::simnet::bump_progress();
                            }
                            for _ in 0..pause * 20 {
                                tokio::task::yield_now().await;
                            }
                        }
                    }));
                }
                next_join += 1;
            }
            if k < n_ops {
                let v = 10_000 + k as u32;
                list.push(v);
                pushed.push(v);
                if rng.chance(20) {
                    tokio::task::yield_now().await;
                }
                if rng.chance(5) {
                    settle().await;
                }
            }
        }
        if call_done {
            list.done();
        }
        // the handle may go away right after done(): everything pushed and the Done marker must still arrive
        let mut list = Some(list);
        if call_done && rng.chance(50) {
            list = None;
        }
        settle().await;
        let mut bad: Vec<(String, String)> = Vec::new();
        for (join, got) in &readers {
            let g = got.lock().unwrap();
            if let Some(e) = &g.1 {
                bad.push((format!("{prop}:list:subscriber-error"), format!("list subscriber (joined at {join}) got an error on a healthy connection: {e}")));
            }
            // every element exactly once, in order (a subscriber gets the whole list, also what was pushed before it joined)
            if g.0 != pushed {
                let first_diff = g.0.iter().zip(pushed.iter()).position(|(a, b)| a != b).unwrap_or(g.0.len().min(pushed.len()));
                bad.push((
                    format!("{prop}:list:elements-missing-duplicated-or-reordered"),
                    format!("list subscriber (joined at {join}) received {} elements, {} were pushed; first difference at index {first_diff}", g.0.len(), pushed.len()),
                ));
            }
            if g.2 != call_done && g.1.is_none() {
                bad.push((format!("{prop}:list:done-flag"), format!("subscriber end-of-list={} but done() called={call_done}", g.2)));
            }
        }
        for (join, m) in mirrors.iter_mut() {
            match or_quiescent(m.borrow_and_update()).await {
                Some(Ok(view)) => {
                    if *view != pushed {
                        bad.push((format!("{prop}:list:mirror-differs"), format!("list mirror (joined at {join}) holds {} elements, list holds {}", view.len(), pushed.len())));
                    }
                    if view.is_done() != call_done {
                        bad.push((format!("{prop}:list:done-flag"), format!("list mirror done={}, done() called={call_done}", view.is_done())));
                    }
                }
                Some(Err(e)) => bad.push((format!("{prop}:list:mirror-error"), format!("list mirror error on a healthy connection: {e}"))),
                None => bad.push((format!("{prop}:list:mirror-borrow-pending"), "borrow pending at quiescence".into())),
            }
        }
        if let Some(list) = &list {
            let own = list.borrow().await;
            if *own != pushed {
                bad.push((format!("{prop}:list:own-contents"), "ObservableList::borrow differs from what was pushed".into()));
            }
            drop(own);
        }
        for (sig, d) in bad.into_iter().take(2) {
            out.viol(sig, d, json!({"run": run, "seed": seed, "collection": "list", "pushes": n_ops, "joins": joins, "remote": remote, "done": call_done}));
        }
        out.count("list_pushes", n_ops as u64);
        out.count("list_subscribers", n_subs as u64);
        out.item("collections", "list");
        if n_subs >= 2 || remote {
            let mut h = Fnv::new();
            h.add_str("list");
            h.add_u64(n_ops as u64);
            for j in &joins {
                h.add_u64(*j as u64);
            }
            h.add_u64(remote as u64);
            h.add_u64(seed);
            out.case_hash = Some(h.get());
        }
        drop(keep);
        Ok(())
    });
    uninstall_h1();
    if let Err(e) = res {
        out.inconclusive = Some(e);
    }
    for p in crate::mem::panics_since(&prefix, panics0) {
        out.viol(format!("{prop}:panic"), format!("panic at {}: {}", p.location, p.message), json!({"run": run, "seed": seed, "collection": "list"}));
    }
    out
}

// small helpers so that reader tasks stay alive for the duration of the run
fn keep_tasks() -> Vec<tokio::task::JoinHandle<()>> {
    Vec::new()
}
fn keep_task(_v: &mut Vec<tokio::task::JoinHandle<()>>, h: tokio::task::JoinHandle<()>) {
    // detached on purpose: the runtime is dropped at the end of the run
    drop(h);
}

// ---------------------------------------------------------------------------------------------------
// crafted subscriptions: events that do not apply to the mirror's contents
// ---------------------------------------------------------------------------------------------------

#[derive(Debug, serde::Serialize, serde::Deserialize)]
enum CraftedVecInitial {
    Value(Vec<u32>),
    Incremental { len: usize, rx: remoc::rch::mpsc::Receiver<u32> },
}

/// Look-alike of `VecSubscription<u32>` (same wire representation, built from public API only).
#[derive(Debug, serde::Serialize, serde::Deserialize)]
struct CraftedVecSub {
    initial: CraftedVecInitial,
    events: Option<remoc::rch::broadcast::Receiver<VecEvent<u32>>>,
}

#[derive(Debug, serde::Serialize, serde::Deserialize)]
enum CraftedDequeInitial {
    Value(VecDeque<u32>),
    Incremental { len: usize, rx: remoc::rch::mpsc::Receiver<u32> },
}

#[derive(Debug, serde::Serialize, serde::Deserialize)]
struct CraftedDequeSub {
    initial: CraftedDequeInitial,
    events: Option<remoc::rch::broadcast::Receiver<VecDequeEvent<u32>>>,
}

macro_rules! crafted_runner {
    ($fname:ident, $name:expr, $Std:ty, $Sub:ty, $Crafted:ident, $CraftedInit:ident, $Ev:ident, $applyfn:path, $good:expr, $bad:expr) => {
        /// A subscription whose event stream contains one event that does not apply to the contents
        /// (index out of range, also exactly one past the end): the mirror must report InvalidIndex, keep
        /// reporting it, and keep the last consistent contents.
        pub fn $fname(run: u64, seed: u64) -> RunOut {
            let mut rng = Rng::new(seed);
            let mut out = RunOut::default();
            let panics0 = crate::mem::panic_count();
            let prefix = crate::clock::thread_prefix();
            install_h1(rng.fork(1), 0, 0);
            let mut rng2 = rng.fork(2);
            let mut descs: Vec<String> = Vec::new();
            let res: Result<(), String> = run_virtual(seed, async {
                let (net, a, mut b, sched) = connect_rch_hetero::<$Crafted, (), (), $Sub>(rch_cfg(&mut rng2), rch_cfg(&mut rng2), draw_netcfg(&mut rng2), &mut rng2).await?;
                let RchEnd { tx: mut tx_a, rx: _rx_a, conn: _ca } = a;
                let events_tx: remoc::rch::broadcast::Sender<$Ev<u32>> = remoc::rch::broadcast::Sender::new();
                let events_rx = events_tx.subscribe(BIG);
                let init: $Std = (0..rng.usize_below(6)).map(|_| val(&mut rng)).collect();
                let crafted = $Crafted { initial: $CraftedInit::Value(init.clone()), events: Some(events_rx) };
                let ship = crate::sched::spawn(async move {
                    let r = tx_a.send(crafted).await.map_err(|e| e.to_string());
                    (r, tx_a)
                });
                let sub = match or_quiescent(b.rx.recv()).await {
                    Some(Ok(Some(s))) => s,
                    other => return Err(format!("crafted subscription did not arrive: {:?}", other.map(|r| r.map(|o| o.is_some()).map_err(|e| e.to_string())))),
                };
                let mirror = sub.mirror(BIG);
                let mut state = init.clone();
                // valid prefix
                for _ in 0..rng.usize_below(8) {
                    let ev: $Ev<u32> = $good(&mut rng, &state);
                    descs.push(format!("{ev:?}"));
                    let _ = $applyfn(&mut state, ev.clone());
                    let _ = events_tx.send(ev);
                }
                let (bad, bad_index): ($Ev<u32>, usize) = $bad(&mut rng, &state);
                descs.push(format!("NON-APPLYING {bad:?} (len {})", state.len()));
                let _ = events_tx.send(bad);
                // events after it must not be applied
                for _ in 0..rng.usize_below(3) {
                    let ev: $Ev<u32> = $good(&mut rng, &state);
                    descs.push(format!("after: {ev:?}"));
                    let _ = events_tx.send(ev);
                }
                settle().await;
                let replay = json!({"run": run, "seed": seed, "collection": $name, "variant": "crafted-non-applying-event", "initial": format!("{init:?}"), "events": descs});
                match or_quiescent(mirror.borrow()).await {
                    Some(Err(RecvError::InvalidIndex(i))) if i == bad_index => out.count("non_applying_events_reported", 1),
                    Some(Err(e)) => out.viol(format!("C14:{}:wrong-error", $name), format!("non-applying event (index {bad_index}, len {}) was reported as {e}", state.len()), replay.clone()),
                    Some(Ok(view)) => {
                        let got: $Std = (*view).clone();
                        out.viol(
                            format!("C14:{}:non-applying-event-not-reported", $name),
                            format!("an event that does not apply (index {bad_index}, contents have {} elements) raised no error; the mirror now presents {got:?}", state.len()),
                            replay.clone(),
                        );
                    }
                    None => out.viol(format!("C14:{}:borrow-pending", $name), "borrow pending at quiescence".to_string(), replay.clone()),
                }
                if let Some(last) = or_quiescent(mirror.detach()).await {
                    if last != state {
                        out.viol(format!("C14:{}:detach-not-last-consistent", $name), format!("detach() returned {last:?}, last consistent contents were {state:?}"), replay.clone());
                    }
                }
                out.item("variants", format!("{}:crafted", $name));
                let mut h = Fnv::new();
                h.add_str($name);
                for d in &descs {
                    h.add_str(d);
                }
                out.case_hash = Some(h.get());
                drop((net, sched, ship, events_tx));
                Ok(())
            });
            uninstall_h1();
            if let Err(e) = res {
                out.inconclusive = Some(e);
            }
            for p in crate::mem::panics_since(&prefix, panics0) {
                out.viol("C14:panic", format!("panic at {}: {}", p.location, p.message), json!({"run": run, "seed": seed, "collection": $name, "events": descs}));
            }
            out
        }
    };
}

fn good_vec_event(rng: &mut Rng, s: &Vec<u32>) -> VecEvent<u32> {
    let n = s.len();
    match rng.below(6) {
        0 if n > 0 => VecEvent::Set(rng.usize_below(n), val(rng)),
        1 if n > 0 => VecEvent::Remove(rng.usize_below(n)),
        2 if n > 0 => VecEvent::SwapRemove(rng.usize_below(n)),
        3 => VecEvent::Insert(rng.usize_below(n + 1), val(rng)),
        4 => VecEvent::Pop,
        _ => VecEvent::Push(val(rng)),
    }
}

fn bad_vec_event(rng: &mut Rng, s: &Vec<u32>) -> (VecEvent<u32>, usize) {
    let n = s.len();
    let over = if rng.chance(60) { 0 } else { 1 + rng.usize_below(20) };
    match rng.below(4) {
        0 => (VecEvent::Insert(n + 1 + over, 1), n + 1 + over),
        1 => (VecEvent::Set(n + over, 1), n + over),
        2 => (VecEvent::Remove(n + over), n + over),
        _ => (VecEvent::SwapRemove(n + over), n + over),
    }
}

fn good_deque_event(rng: &mut Rng, s: &VecDeque<u32>) -> VecDequeEvent<u32> {
    let n = s.len();
    match rng.below(8) {
        0 if n > 0 => VecDequeEvent::Set(rng.usize_below(n), val(rng)),
        1 if n > 0 => VecDequeEvent::Remove(rng.usize_below(n)),
        2 if n > 0 => VecDequeEvent::SwapRemoveBack(rng.usize_below(n)),
        3 if n > 0 => VecDequeEvent::SwapRemoveFront(rng.usize_below(n)),
        4 => VecDequeEvent::Insert(rng.usize_below(n + 1), val(rng)),
        5 => VecDequeEvent::PopFront,
        6 => VecDequeEvent::PushFront(val(rng)),
        _ => VecDequeEvent::PushBack(val(rng)),
    }
}

fn bad_deque_event(rng: &mut Rng, s: &VecDeque<u32>) -> (VecDequeEvent<u32>, usize) {
    let n = s.len();
    let over = if rng.chance(60) { 0 } else { 1 + rng.usize_below(20) };
    match rng.below(5) {
        0 => (VecDequeEvent::Insert(n + 1 + over, 1), n + 1 + over),
        1 => (VecDequeEvent::Set(n + over, 1), n + over),
        2 => (VecDequeEvent::Remove(n + over), n + over),
        3 => (VecDequeEvent::SwapRemoveBack(n + over), n + over),
        _ => (VecDequeEvent::SwapRemoveFront(n + over), n + over),
    }
}

crafted_runner!(c14_crafted_vec, "vec", Vec<u32>, VecSubscription<u32>, CraftedVecSub, CraftedVecInitial, VecEvent, vec_apply, good_vec_event, bad_vec_event);
crafted_runner!(c14_crafted_deque, "vec_deque", VecDeque<u32>, VecDequeSubscription<u32>, CraftedDequeSub, CraftedDequeInitial, VecDequeEvent, deque_apply, good_deque_event, bad_deque_event);

pub fn c13_run(run: u64, seed: u64) -> RunOut {
    match run % 9 {
        0 | 1 => c13_vec(run, seed),
        2 | 3 => c13_deque(run, seed),
        4 | 5 | 6 => c13_map(run, seed),
        7 => c13_set(run, seed),
        _ => list_run(run, seed, false),
    }
}

pub fn c14_run(run: u64, seed: u64) -> RunOut {
    match run % 11 {
        9 => return c14_crafted_vec(run, seed),
        10 => return c14_crafted_deque(run, seed),
        _ => {}
    }
    match run % 11 {
        0 | 1 => c14_vec(run, seed),
        2 | 3 => c14_deque(run, seed),
        4 | 5 => c14_map(run, seed),
        6 => c14_set(run, seed),
        _ => list_run(run, seed, true),
    }
}
