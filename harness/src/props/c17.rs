//! C17 Remote read/write lock: exclusion, latest-committed reads, no deadlock.

use remoc::robj::rw_lock::{Owner, RwLock};
use serde::{Deserialize, Serialize};
use serde_json::json;
use std::{
    sync::{
        Arc, Mutex,
        atomic::{AtomicU64, Ordering},
    },
    time::Duration,
};

use super::{common::*, rig::*};
use crate::{
    clock::{or_quiescent, run_virtual, settle},
    evidence::RunOut,
    rng::{Fnv, Rng},
    sched::{install_h1, uninstall_h1},
};

#[derive(Serialize, Deserialize, Debug)]
pub enum LShip {
    Lock(RwLock<Item>),
    Nothing,
}

#[derive(Clone, Debug)]
pub enum Op {
    Read { hold_ms: u64 },
    Write { hold_ms: u64, commit: bool, poison: bool },
    Pause(u64),
    /// a read or write request whose future is dropped after `polls` polls (the requester loses interest while
    /// waiting); if the guard arrives in time it is released at once (a write guard without commit)
    Abandon { write: bool, polls: u32 },
}

#[derive(Clone, Debug)]
pub struct Rec {
    pub client: usize,
    pub kind: &'static str,
    /// logical time of the request
    pub call: u64,
    /// logical time the guard was obtained (None = still pending / failed)
    pub acquired: Option<u64>,
    /// logical time the guard was released (read: dropped; write: commit returned or guard dropped)
    pub released: Option<u64>,
    /// read: value seen; write: value written
    pub value: u64,
    /// write: value seen in the guard when it was obtained
    pub seen: u64,
    pub committed: bool,
    /// write: logical time at which commit() was called (the guard is handed back at that moment)
    pub commit_call: Option<u64>,
    pub error: Option<String>,
    /// the request future was dropped by its caller before a guard was obtained
    pub cancelled: bool,
}

fn tick(clock: &AtomicU64) -> u64 {
    clock.fetch_add(1, Ordering::SeqCst) + 1
}

async fn client_task(id: usize, lock: RwLock<Item>, script: Vec<Op>, remote: bool, clock: Arc<AtomicU64>, hist: Arc<Mutex<Vec<Rec>>>) {
    for (k, op) in script.into_iter().enumerate() {
        crate::simnet::bump_progress();
        match op {
            Op::Pause(ms) => tokio::time::sleep(Duration::from_millis(ms)).await,
            Op::Abandon { write, polls } => {
                let newv = ((id as u64 + 1) << 20) | (k as u64 + 1) | (1 << 19);
                let idx = {
                    let mut h = hist.lock().unwrap();
                    h.push(Rec { client: id, kind: if write { "write" } else { "read" }, call: tick(&clock), acquired: None, released: None, value: if write { newv } else { 0 }, seen: 0, committed: false, commit_call: None, error: None, cancelled: false });
                    h.len() - 1
                };
                if write {
                    match crate::sched::CancelAt::new(lock.write(), polls).await {
                        Some(Ok(g)) => {
                            let mut h = hist.lock().unwrap();
                            h[idx].acquired = Some(tick(&clock));
                            h[idx].seen = g.id;
                            h[idx].released = Some(tick(&clock));
                            drop(g);
                        }
                        Some(Err(e)) => hist.lock().unwrap()[idx].error = Some(e.to_string()),
                        None => hist.lock().unwrap()[idx].cancelled = true,
                    }
                } else {
                    match crate::sched::CancelAt::new(lock.read(), polls).await {
                        Some(Ok(g)) => {
                            let mut h = hist.lock().unwrap();
                            h[idx].acquired = Some(tick(&clock));
                            h[idx].value = g.id;
                            h[idx].released = Some(tick(&clock));
                            drop(g);
                        }
                        Some(Err(e)) => hist.lock().unwrap()[idx].error = Some(e.to_string()),
                        None => hist.lock().unwrap()[idx].cancelled = true,
                    }
                }
                crate::simnet::bump_progress();
            }
            Op::Read { hold_ms } => {
                let idx = {
                    let mut h = hist.lock().unwrap();
                    h.push(Rec { client: id, kind: "read", call: tick(&clock), acquired: None, released: None, value: 0, seen: 0, committed: false, commit_call: None, error: None, cancelled: false });
                    h.len() - 1
                };
                match lock.read().await {
                    Ok(g) => {
                        {
                            let mut h = hist.lock().unwrap();
                            h[idx].acquired = Some(tick(&clock));
                            h[idx].value = g.id;
                        }
                        crate::simnet::bump_progress();
                        if hold_ms > 0 {
                            tokio::time::sleep(Duration::from_millis(hold_ms)).await;
                        }
                        // the value must not change while the guard is held
                        let still = g.id;
                        let mut h = hist.lock().unwrap();
                        if still != h[idx].value {
                            h[idx].error = Some(format!("value changed under the read guard: {} -> {still}", h[idx].value));
                        }
                        h[idx].released = Some(tick(&clock));
                        drop(g);
                    }
                    Err(e) => hist.lock().unwrap()[idx].error = Some(e.to_string()),
                }
            }
            Op::Write { hold_ms, commit, poison } => {
                let poison = poison && remote && commit;
                let newv = ((id as u64 + 1) << 20) | (k as u64 + 1);
                let idx = {
                    let mut h = hist.lock().unwrap();
                    h.push(Rec { client: id, kind: "write", call: tick(&clock), acquired: None, released: None, value: newv, seen: 0, committed: false, commit_call: None, error: None, cancelled: false });
                    h.len() - 1
                };
                match lock.write().await {
                    Ok(mut g) => {
                        {
                            let mut h = hist.lock().unwrap();
                            h[idx].acquired = Some(tick(&clock));
                            h[idx].seen = g.id;
                        }
                        crate::simnet::bump_progress();
                        if hold_ms > 0 {
                            tokio::time::sleep(Duration::from_millis(hold_ms)).await;
                        }
                        *g = if poison { Item::poisoned(newv, 4) } else { Item::new(newv, 4) };
                        if commit {
                            hist.lock().unwrap()[idx].commit_call = Some(tick(&clock));
                            let r = g.commit().await;
                            let mut h = hist.lock().unwrap();
                            match r {
                                Ok(()) => {
                                    h[idx].committed = true;
                                    if poison {
                                        h[idx].error = Some("commit() returned Ok although the new value could not be transmitted".into());
                                    }
                                }
                                // a commit whose value cannot be transmitted fails; the value stays unchanged
                                Err(_) if poison => {}
                                Err(e) => h[idx].error = Some(e.to_string()),
                            }
                            h[idx].released = Some(tick(&clock));
                        } else {
                            drop(g);
                            hist.lock().unwrap()[idx].released = Some(tick(&clock));
                        }
                    }
                    Err(e) => hist.lock().unwrap()[idx].error = Some(e.to_string()),
                }
            }
        }
    }
}

pub fn gen_script(rng: &mut Rng, n: usize) -> Vec<Op> {
    (0..n)
        .map(|_| match rng.below(12) {
            10 => Op::Abandon { write: true, polls: rng.below(6) as u32 },
            11 => Op::Abandon { write: rng.chance(50), polls: rng.below(6) as u32 },
            0..=4 => Op::Read { hold_ms: *rng.pick(&[0u64, 0, 1, 3, 10]) },
            5..=7 => Op::Write { hold_ms: *rng.pick(&[0u64, 0, 1, 5]), commit: rng.chance(75), poison: rng.chance(12) },
            _ => Op::Pause(rng.below(6)),
        })
        .collect()
}

/// Oracle over a completed (or partially pending) history.
pub fn check_history(h: &[Rec], final_value: Option<u64>) -> Vec<(String, String)> {
    let mut bad = Vec::new();
    for r in h {
        if let Some(e) = &r.error {
            bad.push(("C17:operation-error".to_string(), format!("client {} {}: {e}", r.client, r.kind)));
        }
        if r.acquired.is_none() && r.error.is_none() && !r.cancelled {
            bad.push((
                "C17:request-pending-at-quiescence".to_string(),
                format!("client {} {} requested at t={} is still pending at quiescence although every guard was released", r.client, r.kind, r.call),
            ));
        }
    }
    // exclusion on the logical clock (guards that were never released are held until the end)
    let end = u64::MAX;
    // a write guard is exclusive from the moment it is obtained until commit() is called (the value is handed
    // back at that moment; the confirmation travels afterwards) or until it is dropped
    let guards: Vec<(&Rec, u64, u64)> = h.iter().filter_map(|r| r.acquired.map(|a| (r, a, if r.kind == "write" { r.commit_call.or(r.released).unwrap_or(end) } else { r.released.unwrap_or(end) }))).collect();
    for (i, (a, a0, a1)) in guards.iter().enumerate() {
        for (b, b0, b1) in guards.iter().skip(i + 1) {
            if a.kind == "read" && b.kind == "read" {
                continue;
            }
            if a0 < b1 && b0 < a1 {
                bad.push((
                    "C17:exclusion-violated".to_string(),
                    format!("{} guard of client {} held [{a0},{a1}] overlaps {} guard of client {} held [{b0},{b1}]", a.kind, a.client, b.kind, b.client),
                ));
            }
        }
    }
    // freshness: no stale read, no value that was never committed
    let commits: Vec<&Rec> = h.iter().filter(|r| r.kind == "write" && r.committed).collect();
    let observed = |what: &str, who: usize, v: u64, call: u64, ret: u64, bad: &mut Vec<(String, String)>| {
        if v == 0 {
            // initial value: stale if some commit completed entirely before the read began
            if let Some(w) = commits.iter().find(|w| w.released.unwrap_or(end) < call) {
                bad.push(("C17:stale-read".to_string(), format!("{what} of client {who} [{call},{ret}] returned the initial value although commit of {} completed at t={}", w.value, w.released.unwrap())));
            }
            return;
        }
        match commits.iter().find(|w| w.value == v) {
            None => {
                let dropped = h.iter().any(|w| w.kind == "write" && w.value == v);
                bad.push((
                    if dropped { "C17:uncommitted-value-visible".to_string() } else { "C17:unknown-value".to_string() },
                    format!("{what} of client {who} returned {v}, which was never committed{}", if dropped { " (the write guard was dropped or is still held)" } else { "" }),
                ));
            }
            Some(w) => {
                if w.commit_call.unwrap_or(end) > ret {
                    bad.push(("C17:read-from-the-future".to_string(), format!("{what} of client {who} finished at t={ret} but returned {v} whose commit was only called at t={:?}", w.commit_call)));
                }
                // stale: another commit was obtained after w was handed back and completed before this read began
                if let Some(w2) = commits.iter().find(|w2| w2.value != v && w2.acquired.unwrap_or(end) > w.commit_call.unwrap_or(end) && w2.released.unwrap_or(end) < call) {
                    bad.push(("C17:stale-read".to_string(), format!("{what} of client {who} [{call},{ret}] returned {v} although {} was committed at t={} after it", w2.value, w2.released.unwrap())));
                }
            }
        }
    };
    for r in h {
        if let Some(a) = r.acquired {
            if r.kind == "read" {
                observed("read", r.client, r.value, r.call, a, &mut bad);
            } else {
                observed("write guard", r.client, r.seen, r.call, a, &mut bad);
            }
        }
    }
    // no lost commit: the final value is the one of the last commit
    if let Some(fv) = final_value {
        // write guards are exclusive, so the commit whose guard was obtained last wins
        let last = commits.iter().max_by_key(|w| w.acquired.unwrap_or(0));
        let expect = last.map(|w| w.value).unwrap_or(0);
        if fv != expect {
            bad.push(("C17:commit-lost".to_string(), format!("after everything completed the value is {fv}, the last committed value is {expect}")));
        }
    }
    bad
}

pub fn run_one(run: u64, seed: u64) -> RunOut {
    let mut rng = Rng::new(seed);
    let cfg_a = rch_cfg(&mut rng);
    let cfg_b = rch_cfg(&mut rng);
    let netcfg = draw_netcfg(&mut rng);
    let h1 = *rng.pick(&[0u64, 0, 20, 50]);
    let n_local = 1 + rng.usize_below(2);
    let n_remote = rng.usize_below(3);
    let share_cache = rng.chance(50);
    let scripts: Vec<Vec<Op>> = (0..n_local + n_remote)
        .map(|_| {
            let n = 1 + rng.usize_below(7);
            gen_script(&mut rng, n)
        })
        .collect();
    let replay = json!({"run": run, "seed": seed, "cfg_a": cfg_json(&cfg_a), "cfg_b": cfg_json(&cfg_b), "net": netcfg_class(&netcfg), "h1_pct": h1,
        "local_clients": n_local, "remote_clients": n_remote, "remote_clients_share_cache": share_cache,
        "scripts": scripts.iter().map(|s| s.iter().map(|o| format!("{o:?}")).collect::<Vec<_>>()).collect::<Vec<_>>()});
    let mut out = RunOut::default();
    let panics0 = crate::mem::panic_count();
    let prefix = crate::clock::thread_prefix();
    install_h1(rng.fork(1), h1, 0);
    let hist: Arc<Mutex<Vec<Rec>>> = Arc::new(Mutex::new(Vec::new()));
    let res: Result<(), String> = run_virtual(seed, async {
        let owner = Owner::<Item>::new(Item::new(0, 4));
        let lock = owner.rw_lock();
        let clock = Arc::new(AtomicU64::new(0));
        let mut tasks = Vec::new();
        let mut keep: Vec<Box<dyn std::any::Any + Send>> = Vec::new();
        let mut net0 = None;
        for (i, s) in scripts.iter().take(n_local).enumerate() {
            tasks.push(crate::sched::spawn(client_task(i, lock.clone(), s.clone(), false, clock.clone(), hist.clone())));
        }
        if n_remote > 0 {
            let conn = connect_rch::<LShip, LShip>(cfg_a.clone(), cfg_b.clone(), netcfg.clone(), &mut rng).await?;
            let RchConn { net, a, b, sched } = conn;
            let RchEnd { mut tx, rx: rxa, conn: ca } = a;
            let RchEnd { tx: txb, mut rx, conn: cb } = b;
            let mut first: Option<RwLock<Item>> = None;
            for i in 0..n_remote {
                let remote_lock = if share_cache && first.is_some() {
                    // clones on the remote endpoint share one cache
                    first.as_ref().unwrap().clone()
                } else {
                    let l = lock.clone();
                    let (sr, rr) = tokio::join!(tx.send(LShip::Lock(l)), rx.recv());
                    sr.map_err(|e| format!("shipping the lock: {e}"))?;
                    let Ok(Some(LShip::Lock(l))) = rr else { return Err("lock did not arrive".into()) };
                    if first.is_none() {
                        first = Some(l.clone());
                    }
                    l
                };
                tasks.push(crate::sched::spawn(client_task(n_local + i, remote_lock, scripts[n_local + i].clone(), true, clock.clone(), hist.clone())));
            }
            net0 = Some(net);
            keep.push(Box::new((tx, rxa, ca, txb, rx, cb, sched, first)));
        }
        // virtual time passes while guards are held; quiescence is reached when every script has ended or is stuck
        for _ in 0..400 {
            settle().await;
            if tasks.iter().all(|t| t.is_finished()) {
                break;
            }
            tokio::time::sleep(Duration::from_millis(5)).await;
        }
        settle().await;
        let all_done = tasks.iter().all(|t| t.is_finished());
        let final_value = if all_done { or_quiescent(lock.read()).await.and_then(|r| r.ok()).map(|g| g.id) } else { None };
        let h = hist.lock().unwrap().clone();
        let mut bad = check_history(&h, final_value);
        if all_done && final_value.is_none() {
            bad.push(("C17:request-pending-at-quiescence".into(), "a read after everything completed does not return".into()));
        }
        // the known deadlock has one precise shape: a reader and a writer pending while the reader holds a stale cache
        let deadlock_shape = !all_done && h.iter().any(|r| r.kind == "read" && r.acquired.is_none() && r.error.is_none()) && h.iter().any(|r| r.kind == "write" && r.acquired.is_none() && r.error.is_none());
        for (sig, d) in bad.into_iter().take(3) {
            let sig = if sig == "C17:request-pending-at-quiescence" && deadlock_shape { "C17:readlock.fetch:stale-cache-held-while-requesting".to_string() } else { sig };
            let mut rp = replay.clone();
            rp["history"] = json!(h.iter().map(|r| format!("c{} {} call={} acq={:?} rel={:?} commit_call={:?} value={} seen={} committed={} err={:?}", r.client, r.kind, r.call, r.acquired, r.released, r.commit_call, r.value, r.seen, r.committed, r.error)).collect::<Vec<_>>());
            if let Some(n) = &net0 {
                rp["trace_tail"] = n.trace_json(20);
            }
            out.viol(sig, d, rp);
        }
        out.count("lock_operations", h.len() as u64);
        out.count("commits", h.iter().filter(|r| r.committed).count() as u64);
        out.count("dropped_write_guards", h.iter().filter(|r| r.kind == "write" && r.acquired.is_some() && !r.committed).count() as u64);
        // non-trivial: at least two operations overlap in logical time
        let overlap = h.iter().enumerate().any(|(i, a)| h.iter().skip(i + 1).any(|b| a.client != b.client && a.call < b.released.unwrap_or(u64::MAX) && b.call < a.released.unwrap_or(u64::MAX)));
        if overlap {
            let mut hh = Fnv::new();
            for r in &h {
                hh.add_str(&format!("{}{}{}{:?}{:?}", r.client, r.kind, r.call, r.acquired, r.released));
            }
            out.case_hash = Some(hh.get());
        }
        if let Some(n) = &net0 {
            wire_violations_to(&mut out, n, "C17", &replay);
        }
        drop(keep);
        drop(owner);
        Ok(())
    });
    uninstall_h1();
    if let Err(e) = res {
        out.inconclusive = Some(e);
    }
    if run < 3 {
        out.sample = Some(json!({"plan": replay, "history": hist.lock().unwrap().iter().map(|r| format!("c{} {} call={} acq={:?} rel={:?} value={} committed={}", r.client, r.kind, r.call, r.acquired, r.released, r.value, r.committed)).collect::<Vec<_>>()}));
    }
    for p in crate::mem::panics_since(&prefix, panics0) {
        out.viol("C17:panic", format!("panic at {}: {}", p.location, p.message), replay.clone());
    }
    out
}
