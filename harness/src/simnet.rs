//! Harness-owned transport: the network between two endpoints is a pair of FIFO links that the harness
//! controls completely (when a frame is handed to the reader, back-pressure, faults) and observes completely
//! (append-only trace; online wire monitor).

use bytes::Bytes;
use futures::{Sink, Stream};
use std::{
    cell::Cell,
    collections::VecDeque,
    io,
    pin::Pin,
    sync::{
        Arc, Mutex,
        atomic::{AtomicU64, Ordering},
    },
    task::{Context, Poll, Waker},
};
use tokio::sync::Notify;

use crate::{rng::Rng, wiremon::WireMon};

/// Progress counters (wire events + API events + non-deferred polls of internal tasks), one slot per shard
/// thread so that a watchdog thread can read them.
pub static SHARD_PROGRESS: [AtomicU64; 64] = [const { AtomicU64::new(0) }; 64];

thread_local! {
    pub static SHARD: Cell<usize> = const { Cell::new(0) };
}

pub fn set_shard(i: usize) {
    SHARD.with(|s| s.set(i % 64));
}

/// Externally visible progress only (wire events + API events, no task polls): lets the watchdog tell a
/// livelock (tasks keep waking each other, nothing observable happens) from a long run.
pub static SHARD_EXTERNAL: [AtomicU64; 64] = [const { AtomicU64::new(0) }; 64];

pub fn bump_progress() {
    SHARD.with(|s| {
        SHARD_PROGRESS[s.get()].fetch_add(1, Ordering::Relaxed);
        SHARD_EXTERNAL[s.get()].fetch_add(1, Ordering::Relaxed);
    });
}

/// A poll of a task: progress for quiescence detection, but not an externally visible event.
pub fn bump_poll() {
    SHARD.with(|s| SHARD_PROGRESS[s.get()].fetch_add(1, Ordering::Relaxed));
}

pub fn progress() -> u64 {
    SHARD.with(|s| SHARD_PROGRESS[s.get()].load(Ordering::Relaxed))
}

/// Direction of a link: `AB` carries frames written by endpoint A and read by endpoint B.
#[derive(Clone, Copy, PartialEq, Eq, Debug, Hash)]
pub enum Dir {
    AB,
    BA,
}

impl Dir {
    pub fn idx(self) -> usize {
        match self {
            Dir::AB => 0,
            Dir::BA => 1,
        }
    }
    pub fn rev(self) -> Dir {
        match self {
            Dir::AB => Dir::BA,
            Dir::BA => Dir::AB,
        }
    }
    pub fn name(self) -> &'static str {
        match self {
            Dir::AB => "A>B",
            Dir::BA => "B>A",
        }
    }
}

#[derive(Clone, Copy, PartialEq, Eq, Debug, Hash)]
pub enum FaultKind {
    /// The writer gets an error when it tries to put frame `at`.
    SinkError,
    /// The reader gets an error in place of frame `at`.
    StreamError,
    /// The reader gets end-of-stream in place of frame `at`.
    Eof,
    /// From the moment frame `at` is put, nothing is delivered in either direction any more (silent stall).
    BlackholeBoth,
    /// From the moment frame `at` is put, nothing is delivered in this direction any more.
    BlackholeOne,
    /// The writer of this direction is never ready again once `at` frames were written (a silent stall that
    /// shows as back-pressure, e.g. a peer whose receive window stays closed); frames written before are
    /// delivered normally.
    StallOne,
}

pub const ALL_FAULTS: [FaultKind; 6] =
    [FaultKind::SinkError, FaultKind::StreamError, FaultKind::Eof, FaultKind::BlackholeBoth, FaultKind::BlackholeOne, FaultKind::StallOne];

#[derive(Clone, Copy, Debug)]
pub struct Fault {
    pub dir: Dir,
    pub at: usize,
    pub kind: FaultKind,
}

/// How frames are released to the reader.
#[derive(Clone, Copy, Debug)]
pub enum Delivery {
    /// A frame is readable as soon as it was written.
    Eager,
    /// A scheduler task ([`run_scheduler`]) releases frames after random logical delays.
    Random { max_yield: u32, max_burst: u32 },
}

#[derive(Clone, Debug)]
pub struct NetCfg {
    /// Maximum number of frames that are written but not yet read per direction (0 = unbounded).
    pub capacity: usize,
    pub delivery: Delivery,
    /// Whether dropping a transport half is visible to the peer (EOF / broken pipe), as with TCP.
    pub drop_visible: bool,
    pub fault: Option<Fault>,
    /// Abort (error on the sink) when more than this many frames were written in one direction.
    pub frame_budget: usize,
    /// Keep the full frame trace (disable for heap measurements).
    pub keep_trace: bool,
    /// The sink buffers: a frame handed to `start_send` becomes visible to the link only when the sink is
    /// flushed (or closed), as with a buffered writer under `Framed`. Frames still buffered when the sink is
    /// dropped are lost.
    pub flush_required: bool,
}

impl Default for NetCfg {
    fn default() -> Self {
        Self { capacity: 0, delivery: Delivery::Eager, drop_visible: true, fault: None, frame_budget: 200_000, keep_trace: true, flush_required: false }
    }
}

#[derive(Clone, Debug)]
pub struct TraceEntry {
    pub seq: usize,
    pub dir: Dir,
    pub bytes: Bytes,
    pub put_step: u64,
    pub deliver_step: Option<u64>,
}

#[derive(Default)]
struct Link {
    /// written but not yet flushed (only with `flush_required`)
    unflushed: VecDeque<(usize, Bytes)>,
    queue: VecDeque<(usize, Bytes)>,
    released: usize,
    put_count: usize,
    delivered: usize,
    reader_waker: Option<Waker>,
    writer_waker: Option<Waker>,
    writer_gone: bool,
    reader_gone: bool,
    blackhole: bool,
    eof: bool,
    stream_err: bool,
    stream_err_given: bool,
    sink_err: bool,
    /// The scenario holds this direction back on purpose.
    starved: bool,
}

struct Inner {
    cfg: NetCfg,
    links: [Link; 2],
    trace: Vec<TraceEntry>,
    next_seq: usize,
    step: u64,
    mon: Option<WireMon>,
    budget_exceeded: bool,
    fault_fired_step: Option<u64>,
    /// Interleaving signature: hash over (dir, put/deliver) event order.
    sig: crate::rng::Fnv,
}

pub struct Net {
    inner: Mutex<Inner>,
    notify: Notify,
}

impl Net {
    pub fn new(cfg: NetCfg, mon: Option<WireMon>) -> Arc<Net> {
        Arc::new(Net {
            inner: Mutex::new(Inner {
                cfg,
                links: [Link::default(), Link::default()],
                trace: Vec::new(),
                next_seq: 0,
                step: 0,
                mon,
                budget_exceeded: false,
                fault_fired_step: None,
                sig: crate::rng::Fnv::new(),
            }),
            notify: Notify::new(),
        })
    }

    /// Transport halves of endpoint A (writes AB, reads BA) and endpoint B.
    pub fn endpoints(self: &Arc<Net>) -> ((NetSink, NetStream), (NetSink, NetStream)) {
        (
            (NetSink { net: self.clone(), dir: Dir::AB }, NetStream { net: self.clone(), dir: Dir::BA }),
            (NetSink { net: self.clone(), dir: Dir::BA }, NetStream { net: self.clone(), dir: Dir::AB }),
        )
    }

    pub fn set_starved(&self, dir: Dir, starved: bool) {
        let mut g = self.inner.lock().unwrap();
        g.links[dir.idx()].starved = starved;
        if !starved {
            if let Delivery::Eager = g.cfg.delivery {
                let l = &mut g.links[dir.idx()];
                l.released = l.queue.len();
                if let Some(w) = l.reader_waker.take() {
                    w.wake();
                }
            }
        }
        drop(g);
        self.notify.notify_waiters();
        self.notify.notify_one();
    }

    /// Releases up to `n` frames of `dir` to its reader. Returns how many were released.
    pub fn release(&self, dir: Dir, n: usize) -> usize {
        let mut g = self.inner.lock().unwrap();
        let l = &mut g.links[dir.idx()];
        let avail = l.queue.len() - l.released;
        let k = avail.min(n);
        if k > 0 {
            l.released += k;
            if let Some(w) = l.reader_waker.take() {
                w.wake();
            }
        }
        k
    }

    /// Directions that have unreleased frames and are not starved.
    pub fn releasable(&self) -> Vec<Dir> {
        let g = self.inner.lock().unwrap();
        let mut v = Vec::new();
        for d in [Dir::AB, Dir::BA] {
            let l = &g.links[d.idx()];
            if !l.starved && !l.blackhole && l.queue.len() > l.released {
                v.push(d);
            }
        }
        v
    }

    /// Frames written but not yet handed to the reader, per direction (AB, BA).
    pub fn in_flight(&self) -> (usize, usize) {
        let g = self.inner.lock().unwrap();
        (g.links[0].queue.len(), g.links[1].queue.len())
    }

    pub fn put_counts(&self) -> (usize, usize) {
        let g = self.inner.lock().unwrap();
        (g.links[0].put_count, g.links[1].put_count)
    }

    pub fn delivered_counts(&self) -> (usize, usize) {
        let g = self.inner.lock().unwrap();
        (g.links[0].delivered, g.links[1].delivered)
    }

    pub fn budget_exceeded(&self) -> bool {
        self.inner.lock().unwrap().budget_exceeded
    }

    /// Arms a fault while the connection is running (`at` counts frames of that direction from the start).
    pub fn set_fault(&self, fault: Fault) {
        self.inner.lock().unwrap().cfg.fault = Some(fault);
    }

    pub fn fault_fired(&self) -> bool {
        self.inner.lock().unwrap().fault_fired_step.is_some()
    }

    pub fn signature(&self) -> u64 {
        self.inner.lock().unwrap().sig.get()
    }

    pub fn with_mon<R>(&self, f: impl FnOnce(&mut WireMon) -> R) -> Option<R> {
        let mut g = self.inner.lock().unwrap();
        g.mon.as_mut().map(f)
    }

    pub fn take_mon(&self) -> Option<WireMon> {
        self.inner.lock().unwrap().mon.take()
    }

    pub fn trace_len(&self) -> usize {
        self.inner.lock().unwrap().trace.len()
    }

    /// Copy of the trace (tail of at most `max` entries).
    pub fn trace_tail(&self, max: usize) -> Vec<TraceEntry> {
        let g = self.inner.lock().unwrap();
        let n = g.trace.len();
        g.trace[n.saturating_sub(max)..].to_vec()
    }

    pub fn trace_json(&self, max: usize) -> serde_json::Value {
        let g = self.inner.lock().unwrap();
        let n = g.trace.len();
        let start = n.saturating_sub(max);
        // payload frames follow a Data header in the same direction
        let mut payload_next = [false, false];
        let mut v = Vec::new();
        for e in g.trace.iter() {
            let d = e.dir.idx();
            let dec = if payload_next[d] {
                payload_next[d] = false;
                format!("payload[{}] {}", e.bytes.len(), hex(&e.bytes, 16))
            } else {
                match crate::refcodec::decode(&e.bytes) {
                    Ok(m) => {
                        if matches!(m, crate::refcodec::Msg::Data { .. }) {
                            payload_next[d] = true;
                        }
                        format!("{m:?}")
                    }
                    Err(_) => format!("raw[{}] {}", e.bytes.len(), hex(&e.bytes, 24)),
                }
            };
            if e.seq >= start {
                v.push(serde_json::json!({"seq": e.seq, "dir": e.dir.name(), "put": e.put_step, "dlv": e.deliver_step, "frame": dec}));
            }
        }
        serde_json::Value::Array(v)
    }
}

pub fn hex(b: &[u8], max: usize) -> String {
    let mut s = String::new();
    for x in b.iter().take(max) {
        s.push_str(&format!("{x:02x}"));
    }
    if b.len() > max {
        s.push_str("..");
    }
    s
}

/// Scheduler task for [`Delivery::Random`]: releases frames after random logical delays (task yields),
/// choosing the direction at random. Parks on a `Notify` when nothing is releasable.
pub async fn run_scheduler(net: Arc<Net>, mut rng: Rng) {
    let (max_yield, max_burst) = match net.inner.lock().unwrap().cfg.delivery {
        Delivery::Random { max_yield, max_burst } => (max_yield, max_burst.max(1)),
        Delivery::Eager => return,
    };
    loop {
        let notified = net.notify.notified();
        tokio::pin!(notified);
        notified.as_mut().enable();
        let cands = net.releasable();
        if cands.is_empty() {
            notified.await;
            continue;
        }
        let delay = rng.below(u64::from(max_yield) + 1);
        for _ in 0..delay {
            tokio::task::yield_now().await;
        }
        let cands = net.releasable();
        if cands.is_empty() {
            continue;
        }
        let d = *rng.pick(&cands);
        let n = 1 + rng.below(u64::from(max_burst)) as usize;
        net.release(d, n);
    }
}

pub struct NetSink {
    net: Arc<Net>,
    dir: Dir,
}

pub struct NetStream {
    net: Arc<Net>,
    dir: Dir,
}

fn broken(msg: &str) -> io::Error {
    io::Error::new(io::ErrorKind::BrokenPipe, msg.to_string())
}

impl NetSink {
    pub fn net(&self) -> &Arc<Net> {
        &self.net
    }
}

impl Sink<Bytes> for NetSink {
    type Error = io::Error;

    fn poll_ready(self: Pin<&mut Self>, cx: &mut Context<'_>) -> Poll<Result<(), io::Error>> {
        let mut g = self.net.inner.lock().unwrap();
        let g = &mut *g;
        let cap = g.cfg.capacity;
        let drop_visible = g.cfg.drop_visible;
        let eager = matches!(g.cfg.delivery, Delivery::Eager);
        if let Some(f) = g.cfg.fault {
            if f.kind == FaultKind::StallOne && f.dir == self.dir && g.links[self.dir.idx()].put_count >= f.at && !g.links[self.dir.idx()].sink_err {
                if g.fault_fired_step.is_none() {
                    g.fault_fired_step = Some(g.step);
                    bump_progress();
                }
                // what was written before still goes out
                let l = &mut g.links[self.dir.idx()];
                if !l.unflushed.is_empty() {
                    while let Some(fr) = l.unflushed.pop_front() {
                        l.queue.push_back(fr);
                    }
                    if eager && !l.starved {
                        l.released = l.queue.len();
                        if let Some(w) = l.reader_waker.take() {
                            w.wake();
                        }
                    }
                    self.net.notify.notify_one();
                }
                return Poll::Pending;
            }
        }
        let l = &mut g.links[self.dir.idx()];
        if l.sink_err {
            return Poll::Ready(Err(broken("injected sink error")));
        }
        if l.reader_gone && drop_visible {
            return Poll::Ready(Err(broken("peer closed")));
        }
        if cap > 0 && !l.blackhole && l.queue.len() + l.unflushed.len() >= cap {
            // A buffering sink that is full writes its buffer out by itself (as `Framed::poll_ready` does above
            // its back-pressure boundary); it never waits for its own unflushed frames.
            if !l.unflushed.is_empty() {
                while let Some(f) = l.unflushed.pop_front() {
                    l.queue.push_back(f);
                }
                if eager && !l.starved {
                    l.released = l.queue.len();
                    if let Some(w) = l.reader_waker.take() {
                        w.wake();
                    }
                }
                self.net.notify.notify_one();
            }
            l.writer_waker = Some(cx.waker().clone());
            return Poll::Pending;
        }
        Poll::Ready(Ok(()))
    }

    fn start_send(self: Pin<&mut Self>, item: Bytes) -> Result<(), io::Error> {
        let dir = self.dir;
        let mut g = self.net.inner.lock().unwrap();
        let g = &mut *g;
        if g.links[dir.idx()].sink_err {
            return Err(broken("injected sink error"));
        }
        let k = g.links[dir.idx()].put_count;
        if k >= g.cfg.frame_budget {
            g.budget_exceeded = true;
            g.links[dir.idx()].sink_err = true;
            return Err(broken("frame budget exceeded"));
        }
        // Faults that trigger on put.
        if let Some(f) = g.cfg.fault {
            if f.dir == dir && f.at == k {
                match f.kind {
                    FaultKind::SinkError => {
                        g.links[dir.idx()].sink_err = true;
                        g.fault_fired_step = Some(g.step);
                        return Err(broken("injected sink error"));
                    }
                    FaultKind::BlackholeBoth => {
                        for l in g.links.iter_mut() {
                            l.blackhole = true;
                            l.queue.clear();
                            l.released = 0;
                            if let Some(w) = l.writer_waker.take() {
                                w.wake();
                            }
                        }
                        g.fault_fired_step = Some(g.step);
                    }
                    FaultKind::BlackholeOne => {
                        let l = &mut g.links[dir.idx()];
                        l.blackhole = true;
                        l.queue.clear();
                        l.released = 0;
                        g.fault_fired_step = Some(g.step);
                    }
                    _ => {}
                }
            }
        }
        g.step += 1;
        let step = g.step;
        let seq = g.next_seq;
        g.next_seq += 1;
        if g.cfg.keep_trace {
            g.trace.push(TraceEntry { seq, dir, bytes: item.clone(), put_step: step, deliver_step: None });
        }
        g.sig.add(&[dir.idx() as u8, 0, item.first().copied().unwrap_or(0)]);
        if let Some(mon) = g.mon.as_mut() {
            mon.on_put(dir, seq, &item);
        }
        let eager = matches!(g.cfg.delivery, Delivery::Eager);
        let buffered = g.cfg.flush_required;
        let l = &mut g.links[dir.idx()];
        l.put_count += 1;
        if !l.blackhole {
            if buffered {
                l.unflushed.push_back((seq, item));
            } else {
                l.queue.push_back((seq, item));
                if eager && !l.starved {
                    l.released = l.queue.len();
                    if let Some(w) = l.reader_waker.take() {
                        w.wake();
                    }
                }
            }
        }
        bump_progress();
        self.net.notify.notify_one();
        Ok(())
    }

    fn poll_flush(self: Pin<&mut Self>, _cx: &mut Context<'_>) -> Poll<Result<(), io::Error>> {
        let mut g = self.net.inner.lock().unwrap();
        if g.links[self.dir.idx()].sink_err {
            return Poll::Ready(Err(broken("injected sink error")));
        }
        let eager = matches!(g.cfg.delivery, Delivery::Eager);
        let l = &mut g.links[self.dir.idx()];
        if !l.unflushed.is_empty() {
            while let Some(f) = l.unflushed.pop_front() {
                l.queue.push_back(f);
            }
            if eager && !l.starved {
                l.released = l.queue.len();
                if let Some(w) = l.reader_waker.take() {
                    w.wake();
                }
            }
            drop(g);
            bump_progress();
            self.net.notify.notify_one();
        }
        Poll::Ready(Ok(()))
    }

    fn poll_close(self: Pin<&mut Self>, cx: &mut Context<'_>) -> Poll<Result<(), io::Error>> {
        let _ = self.poll_flush(cx);
        Poll::Ready(Ok(()))
    }
}

impl Drop for NetSink {
    fn drop(&mut self) {
        let mut g = self.net.inner.lock().unwrap();
        let l = &mut g.links[self.dir.idx()];
        l.writer_gone = true;
        // frames that were never flushed die with the writer's buffer
        l.unflushed.clear();
        if let Some(w) = l.reader_waker.take() {
            w.wake();
        }
        bump_progress();
    }
}

impl Stream for NetStream {
    type Item = Result<Bytes, io::Error>;

    fn poll_next(self: Pin<&mut Self>, cx: &mut Context<'_>) -> Poll<Option<Self::Item>> {
        let dir = self.dir;
        let mut g = self.net.inner.lock().unwrap();
        let g = &mut *g;
        let drop_visible = g.cfg.drop_visible;
        {
            let l = &mut g.links[dir.idx()];
            if l.stream_err {
                if !l.stream_err_given {
                    l.stream_err_given = true;
                    return Poll::Ready(Some(Err(io::Error::new(io::ErrorKind::ConnectionReset, "injected stream error"))));
                }
                return Poll::Ready(None);
            }
            if l.eof {
                return Poll::Ready(None);
            }
        }
        // Faults that trigger on delivery: the reader gets the fault in place of frame `at`
        // (as soon as it has consumed `at` frames and polls for the next one).
        if let Some(f) = g.cfg.fault {
            if f.dir == dir && f.at == g.links[dir.idx()].delivered {
                match f.kind {
                    FaultKind::StreamError => {
                        let l = &mut g.links[dir.idx()];
                        l.stream_err = true;
                        l.stream_err_given = true;
                        g.fault_fired_step = Some(g.step);
                        bump_progress();
                        return Poll::Ready(Some(Err(io::Error::new(
                            io::ErrorKind::ConnectionReset,
                            "injected stream error",
                        ))));
                    }
                    FaultKind::Eof => {
                        g.links[dir.idx()].eof = true;
                        g.fault_fired_step = Some(g.step);
                        bump_progress();
                        return Poll::Ready(None);
                    }
                    _ => {}
                }
            }
        }
        let has = {
            let l = &g.links[dir.idx()];
            !l.blackhole && l.released > 0 && !l.queue.is_empty()
        };
        if has {
            g.step += 1;
            let step = g.step;
            let l = &mut g.links[dir.idx()];
            let (seq, bytes) = l.queue.pop_front().unwrap();
            l.released -= 1;
            l.delivered += 1;
            if let Some(w) = l.writer_waker.take() {
                w.wake();
            }
            if g.cfg.keep_trace {
                g.trace[seq].deliver_step = Some(step);
            }
            g.sig.add(&[dir.idx() as u8, 1]);
            if let Some(mon) = g.mon.as_mut() {
                mon.on_deliver(dir, seq);
            }
            bump_progress();
            return Poll::Ready(Some(Ok(bytes)));
        }
        let l = &mut g.links[dir.idx()];
        if l.writer_gone && drop_visible && l.queue.is_empty() && !l.blackhole {
            return Poll::Ready(None);
        }
        l.reader_waker = Some(cx.waker().clone());
        Poll::Pending
    }
}

impl Drop for NetStream {
    fn drop(&mut self) {
        let mut g = self.net.inner.lock().unwrap();
        let l = &mut g.links[self.dir.idx()];
        l.reader_gone = true;
        if let Some(w) = l.writer_waker.take() {
            w.wake();
        }
        bump_progress();
    }
}
