//! Small deterministic PRNG (splitmix64 / xorshift*), no external crates.

#[derive(Clone, Debug)]
pub struct Rng(u64);

impl Rng {
    pub fn new(seed: u64) -> Self {
        let mut r = Rng(seed ^ 0x9E37_79B9_7F4A_7C15);
        r.next();
        r.next();
        r
    }

    /// Derives an independent stream.
    pub fn fork(&mut self, salt: u64) -> Rng {
        Rng::new(self.next() ^ salt.wrapping_mul(0xD6E8_FEB8_6659_FD93))
    }

    pub fn next(&mut self) -> u64 {
        self.0 = self.0.wrapping_add(0x9E37_79B9_7F4A_7C15);
        let mut z = self.0;
        z = (z ^ (z >> 30)).wrapping_mul(0xBF58_476D_1CE4_E5B9);
        z = (z ^ (z >> 27)).wrapping_mul(0x94D0_49BB_1331_11EB);
        z ^ (z >> 31)
    }

    /// Uniform in 0..n (n > 0).
    pub fn below(&mut self, n: u64) -> u64 {
        debug_assert!(n > 0);
        self.next() % n
    }

    pub fn usize_below(&mut self, n: usize) -> usize {
        self.below(n as u64) as usize
    }

    /// Uniform in lo..=hi.
    pub fn range(&mut self, lo: u64, hi: u64) -> u64 {
        lo + self.below(hi - lo + 1)
    }

    /// True with probability pct/100.
    pub fn chance(&mut self, pct: u64) -> bool {
        self.below(100) < pct
    }

    pub fn pick<'a, T>(&mut self, xs: &'a [T]) -> &'a T {
        &xs[self.usize_below(xs.len())]
    }

    pub fn shuffle<T>(&mut self, xs: &mut [T]) {
        for i in (1..xs.len()).rev() {
            let j = self.usize_below(i + 1);
            xs.swap(i, j);
        }
    }
}

/// Self-describing payload: every byte is determined by (id, len, index), so a receiver can tell
/// which send a message came from, and truncation / merging / corruption is detectable.
pub fn payload(id: u64, len: usize) -> Vec<u8> {
    let mut v = Vec::with_capacity(len);
    let mut x = id.wrapping_mul(0x9E37_79B9_7F4A_7C15) ^ (len as u64).wrapping_mul(0xC2B2_AE3D_27D4_EB4F);
    // First up to 8 bytes carry the id itself for easy identification.
    let idb = id.to_le_bytes();
    for i in 0..len {
        if i < 8 {
            v.push(idb[i]);
        } else {
            x ^= x << 13;
            x ^= x >> 7;
            x ^= x << 17;
            v.push((x >> 24) as u8);
        }
    }
    v
}

/// FNV-1a 64 bit, used for interleaving signatures and case hashes.
#[derive(Clone, Copy)]
pub struct Fnv(pub u64);

impl Default for Fnv {
    fn default() -> Self {
        Fnv(0xcbf2_9ce4_8422_2325)
    }
}

impl Fnv {
    pub fn new() -> Self {
        Self::default()
    }
    pub fn add(&mut self, bytes: &[u8]) {
        for b in bytes {
            self.0 ^= u64::from(*b);
            self.0 = self.0.wrapping_mul(0x0000_0100_0000_01B3);
        }
    }
    pub fn add_u64(&mut self, v: u64) {
        self.add(&v.to_le_bytes());
    }
    pub fn add_str(&mut self, s: &str) {
        self.add(s.as_bytes());
        self.add(&[0xff]);
    }
    pub fn get(&self) -> u64 {
        self.0
    }
}
